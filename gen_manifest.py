#!/usr/bin/env python3
# Regenerates MANIFEST.json from manifest_src.json (claimed checks) and properties.jsonl.
import json, subprocess
src = json.load(open('/verif/manifest_src.json'))
props = [json.loads(l) for l in open('/verif/properties.jsonl')]
checks = []
na = []
for p in props:
    pid = p['id']
    if pid in src['claimed']:
        c = src['claimed'][pid]
        checks.append({
            "property_id": pid,
            "quick_cmd": f"./check {pid} --tier quick",
            "thorough_cmd": f"./check {pid} --tier thorough",
            "evidence_file": f"/verif/evidence/{pid}.json",
            "replay_cmd_template": "./check --replay {path}",
            "engine": "govc",
            "level_claimed": {"category": c.get("category", "proof"), "text": c["text"], "design_ref": c.get("design_ref", "DESIGN.md §3 " + pid)},
            "level_note": c["note"],
            "technique": c.get("technique", "contract-based deductive verification: weakest-precondition VCs over go/ssa of the real code, contracts in tagged comment files, discharged by z3/cvc5"),
        })
    else:
        na.append({"property_id": pid, "reason": src['not_claimed'].get(pid, "contracts for this property are not finished yet; not claimed rather than claimed at a level it does not have (DESIGN.md §7 fall-back rule)")})
commits = subprocess.run(['git','-C','/repo','log','--format=%H %s'],capture_output=True,text=True).stdout.strip().split('\n')
hooks = [l.split()[0] for l in commits if l.split(' ',1)[1].startswith('verif:')]
m = {
 "version": 1,
 "setup_cmd": "cd /verif/govc && GOFLAGS=-mod=vendor GOPROXY=off GOSUMDB=off GOTOOLCHAIN=local go build -o ../bin/govc .",
 "hooks": {
  "guard": "verif",
  "enable": "go build -tags verif (govc loads /repo with -tags=verif; the tagged files are comment-only contract files zz_verif_contracts.go)",
  "baseline_off_cmd": "cd /repo && GOFLAGS=-mod=mod GOPROXY=off GOSUMDB=off go test -json -vet=off -count=1 -timeout 25m ./...",
  "source_commits": hooks,
  "add_only": True,
 },
 "engines": [{"name": "govc", "path": "/verif/govc", "serves_properties": sorted(src['claimed'].keys()), "kind_free_text": "self-written verification-condition generator over go/ssa (naive form) of /repo's working tree with Gobra-style contracts in //go:build verif comment files; obligations discharged by z3 4.8.12, z3 5.1.0, cvc5 1.0"}],
 "checks": checks,
 "not_applicable": na,
 "notes": src.get("notes", ""),
}
json.dump(m, open('/verif/MANIFEST.json','w'), indent=1)
print("checks:", len(checks), "not_applicable:", len(na))
