#!/bin/bash
# usage: mut.sh <file> <python-expr-on-s> [govc args...]   -- dev helper: run govc on a mutated scratch copy
f=$1; shift; expr=$1; shift
rm -rf /tmp/mut && mkdir -p /tmp/mut && rsync -a --exclude .git /repo/ /tmp/mut/
python3 - "$f" "$expr" <<'PY'
import sys
f,expr=sys.argv[1],sys.argv[2]
s=open('/tmp/mut/'+f).read()
t=eval(expr)
assert t!=s, "mutation did not apply"
open('/tmp/mut/'+f,'w').write(t)
PY
[ $? -eq 0 ] || exit 3
/verif/bin/govc -repo /tmp/mut "$@" 2>&1 | grep -v WARNING | grep 'FAIL\|SPEC\|VACUOUS\|VIOLATION\|load '
rm -rf /tmp/mut
