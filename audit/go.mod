module audit

go 1.23
