package audit

import (
	"os"
	"testing"
	"time"
)

func fiTime(t *testing.T, p string) time.Time {
	fi, err := os.Stat(p)
	if err != nil {
		t.Fatal(err)
	}
	return fi.ModTime()
}
