package audit

// Bounded audit of the ASSUMED contracts in /verif/trusted/*.spec against the
// standard library that is actually linked.  Nothing here is proof: every test
// states its bound.  A failure means an assumption the deductive checks rely on
// is false for this Go release (the machinery, not flamego, is then wrong).

import (
	"bytes"
	"encoding/json"
	"encoding/xml"
	"fmt"
	"io"
	"log"
	"math"
	"net/http"
	"net/http/httptest"
	"net/url"
	"os"
	"path/filepath"
	"reflect"
	"regexp"
	"strconv"
	"strings"
	"testing"
)

func enum(alphabet string, n int, f func(string)) int {
	count := 0
	var rec func(prefix []byte, k int)
	rec = func(prefix []byte, k int) {
		f(string(prefix))
		count++
		if k == 0 {
			return
		}
		for i := 0; i < len(alphabet); i++ {
			rec(append(prefix, alphabet[i]), k-1)
		}
	}
	rec(nil, n)
	return count
}

// trusted/strings.spec: Index / Count / TrimLeft with the separator "/".
func TestAuditStrings(t *testing.T) {
	n := enum("a/b", 8, func(s string) {
		r := strings.Index(s, "/")
		if r < -1 || r > len(s)-1 {
			t.Fatalf("Index(%q) = %d out of range", s, r)
		}
		for j := 0; j < len(s) && (r < 0 || j < r); j++ {
			if s[j] == '/' {
				t.Fatalf("Index(%q) = %d skips a slash at %d", s, r, j)
			}
		}
		if r >= 0 && s[r] != '/' {
			t.Fatalf("Index(%q) = %d is not a slash", s, r)
		}
		if c := strings.Count(s, "/"); c < 0 || c > len(s)+1 {
			t.Fatalf("Count(%q) = %d", s, c)
		}
		tl := strings.TrimLeft(s, "/")
		if len(tl) > len(s) || !strings.HasSuffix(s, tl) || (tl != "" && tl[0] == '/') {
			t.Fatalf("TrimLeft(%q) = %q", s, tl)
		}
		if tp := strings.TrimPrefix(s, "/a"); len(tp) > len(s) {
			t.Fatalf("TrimPrefix(%q) = %q", s, tp)
		}
	})
	fmt.Printf("AUDIT-STATS strings: %d strings up to length 8 over {a,/,b}\n", n)
}

// trusted/regexp.spec: FindStringSubmatch returns nil or NumSubexp()+1 entries; MatchString agrees with it;
// QuoteMeta adds no group and matches its argument literally.
func TestAuditRegexp(t *testing.T) {
	var inputs []string
	enum("a(-", 3, func(s string) { inputs = append(inputs, s) })
	exprs, compiled := 0, 0
	enum(`()a|*?[]-.\`, 4, func(e string) {
		exprs++
		if _, err := regexp.Compile(e); err != nil {
			return
		}
		re, err := regexp.Compile("^(?:" + e + ")$")
		if err != nil {
			t.Fatalf("%q compiles on its own but not inside a group: %v", e, err)
		}
		compiled++
		if re.NumSubexp() < 0 {
			t.Fatalf("NumSubexp(%q) < 0", e)
		}
		for _, w := range inputs {
			sm := re.FindStringSubmatch(w)
			if sm != nil && len(sm) != re.NumSubexp()+1 {
				t.Fatalf("FindStringSubmatch(%q, %q) has %d entries, NumSubexp = %d", e, w, len(sm), re.NumSubexp())
			}
			if (sm != nil) != re.MatchString(w) {
				t.Fatalf("MatchString and FindStringSubmatch disagree on %q, %q", e, w)
			}
			if sm != nil && sm[0] != w {
				t.Fatalf("anchored %q on %q: sm[0] = %q", e, w, sm[0])
			}
		}
		q := regexp.QuoteMeta(e)
		qre, err := regexp.Compile("^" + q + "$")
		if err != nil || qre.NumSubexp() != 0 || !qre.MatchString(e) {
			t.Fatalf("QuoteMeta(%q) = %q: err=%v groups=%d", e, q, err, qre.NumSubexp())
		}
	})
	for _, lit := range []struct {
		s string
		n int
	}{{"^", 0}, {"$", 0}, {"(.+)", 1}} {
		if regexp.MustCompile(lit.s).NumSubexp() != lit.n {
			t.Fatalf("NumSubexp(%q) != %d", lit.s, lit.n)
		}
	}
	fmt.Printf("AUDIT-STATS regexp: %d expressions up to length 4 over 12 symbols (%d compile), %d inputs each\n", exprs, compiled, len(inputs))
}

// trusted/url.spec: QueryUnescape inverts QueryEscape; PathUnescape is a function of its argument; a QueryEscape'd
// value survives Cookie.String -> Cookie header -> Request.Cookie byte for byte.
func TestAuditURLAndCookies(t *testing.T) {
	count := 0
	check := func(s string) {
		count++
		e := url.QueryEscape(s)
		u, err := url.QueryUnescape(e)
		if err != nil || u != s {
			t.Fatalf("QueryUnescape(QueryEscape(%q)) = %q, %v", s, u, err)
		}
		c := &http.Cookie{Name: "n", Value: e}
		line := c.String()
		if !strings.HasPrefix(line, "n=") {
			t.Fatalf("Cookie.String() of value %q = %q", e, line)
		}
		sent := strings.SplitN(strings.TrimPrefix(line, "n="), ";", 2)[0]
		req, _ := http.NewRequest("GET", "http://x/", nil)
		req.Header.Set("Cookie", "n="+sent)
		got, err := req.Cookie("n")
		if e == "" {
			// an empty value is read back as empty
			if err != nil || got.Value != "" {
				t.Fatalf("empty cookie value: %v %v", got, err)
			}
			return
		}
		if err != nil || got.Value != e {
			t.Fatalf("cookie value %q (escaped from %q) read back as %v, %v (sent %q)", e, s, got, err, sent)
		}
	}
	for a := 0; a < 256; a++ {
		check(string([]byte{byte(a)}))
		for b := 0; b < 256; b++ {
			check(string([]byte{byte(a), byte(b)}))
		}
	}
	for _, s := range []string{"", "中国", "a b+c;d,e\"f%g", strings.Repeat("%", 50), "\x00\xff\x80 +"} {
		check(s)
	}
	fmt.Printf("AUDIT-STATS url/cookies: %d values (all byte strings up to length 2 plus samples)\n", count)
}

// trusted/url.spec: typed accessors rely on strconv returning zero for text that is not a number.
func TestAuditStrconv(t *testing.T) {
	n := 0
	enum("a1-+. e", 4, func(s string) {
		n++
		if v, err := strconv.Atoi(s); err != nil && v != 0 {
			if ne, ok := err.(*strconv.NumError); !ok || ne.Err != strconv.ErrRange {
				t.Fatalf("Atoi(%q) = %d with %v", s, v, err)
			}
		}
		if v, err := strconv.ParseInt(s, 10, 64); err != nil && v != 0 {
			t.Fatalf("ParseInt(%q) = %d with %v", s, v, err)
		}
		if v, err := strconv.ParseBool(s); err != nil && v {
			t.Fatalf("ParseBool(%q) = true with %v", s, err)
		}
		if v, err := strconv.ParseFloat(s, 64); err != nil && v != 0 && !math.IsInf(v, 0) {
			t.Fatalf("ParseFloat(%q) = %v with %v", s, v, err)
		}
	})
	// documented exception, recorded as an assumption: out-of-range text is clamped, not zero
	if v, err := strconv.ParseInt("99999999999999999999", 10, 64); err == nil || v != math.MaxInt64 {
		t.Fatalf("ParseInt out of range: %d %v", v, err)
	}
	fmt.Printf("AUDIT-STATS strconv: %d strings up to length 4 over {a,1,-,+,.,blank,e}\n", n)
}

// trusted/std.spec: strings.Replacer replaces all keys in one left-to-right pass and never re-scans replacements.
func TestAuditReplacer(t *testing.T) {
	keys := []string{"{a}", "{b}", "{ab}"}
	vals := []string{"", "x", "{a}", "{b}", "{ab}", "{", "}"}
	n := 0
	var texts []string
	enum("{ab}/", 6, func(s string) { texts = append(texts, s) })
	for _, va := range vals {
		for _, vb := range vals {
			for _, vab := range vals {
				m := map[string]string{"{a}": va, "{b}": vb, "{ab}": vab}
				var pairs []string
				for k, v := range m {
					pairs = append(pairs, k, v)
				}
				r := strings.NewReplacer(pairs...)
				for _, s := range texts {
					n++
					// reference: at each position, replace the key that starts there (keys are prefix-free), else copy one byte
					var ref strings.Builder
					for i := 0; i < len(s); {
						hit := false
						for _, k := range keys {
							if strings.HasPrefix(s[i:], k) {
								ref.WriteString(m[k])
								i += len(k)
								hit = true
								break
							}
						}
						if !hit {
							ref.WriteByte(s[i])
							i++
						}
					}
					if got := r.Replace(s); got != ref.String() {
						t.Fatalf("Replace(%q) with %v = %q, one-pass reference %q", s, m, got, ref.String())
					}
				}
			}
		}
	}
	fmt.Printf("AUDIT-STATS replacer: %d (text, assignment) pairs\n", n)
}

type op struct {
	kind string // "H" WriteHeader(code), "W" Write(body), "C" set Content-Type
	code int
	body string
}

// trusted/nethttp.spec: the first status line wins, a Write before any WriteHeader sends 200, the Content-Type that
// counts is the one in the header map when the first status line goes out, later header changes are not sent.
func TestAuditResponseWriter(t *testing.T) {
	alphabet := []op{{"H", 201, ""}, {"H", 404, ""}, {"W", 0, "ab"}, {"W", 0, ""}, {"C", 0, "text/x-one"}, {"C", 0, "text/x-two"}}
	var seqs [][]op
	var rec func(prefix []op, k int)
	rec = func(prefix []op, k int) {
		seqs = append(seqs, append([]op{}, prefix...))
		if k == 0 {
			return
		}
		for _, o := range alphabet {
			rec(append(prefix, o), k-1)
		}
	}
	rec(nil, 4)
	var cur []op
	srv := httptest.NewUnstartedServer(http.HandlerFunc(func(w http.ResponseWriter, r *http.Request) {
		for _, o := range cur {
			switch o.kind {
			case "H":
				w.WriteHeader(o.code)
			case "W":
				n, err := w.Write([]byte(o.body))
				if err != nil || n < 0 || n > len(o.body) {
					panic("Write result out of range")
				}
			case "C":
				w.Header().Set("Content-Type", o.body)
			}
		}
	}))
	srv.Config.ErrorLog = log.New(io.Discard, "", 0) // "superfluous WriteHeader" notes are expected here
	srv.Start()
	defer srv.Close()
	for _, s := range seqs {
		cur = s
		// model of trusted/nethttp.spec
		sent, status, ct, curCT, body := false, 200, "", "", ""
		for _, o := range s {
			switch o.kind {
			case "H":
				if !sent {
					sent, status, ct = true, o.code, curCT
				}
			case "W":
				if !sent {
					sent, status, ct = true, 200, curCT
				}
				body += o.body
			case "C":
				curCT = o.body
			}
		}
		if !sent {
			ct = curCT // the server sends the implicit 200 when the handler returns
		}
		resp, err := http.Get(srv.URL)
		if err != nil {
			t.Fatal(err)
		}
		got, _ := io.ReadAll(resp.Body)
		resp.Body.Close()
		if resp.StatusCode != status || string(got) != body {
			t.Fatalf("sequence %v: status %d body %q, model says %d %q", s, resp.StatusCode, got, status, body)
		}
		if ct != "" && resp.Header.Get("Content-Type") != ct {
			t.Fatalf("sequence %v: Content-Type %q, model says %q", s, resp.Header.Get("Content-Type"), ct)
		}
	}
	fmt.Printf("AUDIT-STATS responsewriter: %d operation sequences up to length 4 over a real server round trip\n", len(seqs))
}

// trusted/static.spec: http.Dir never opens anything outside its directory; ServeContent sends exactly the reader's bytes.
func TestAuditStaticFS(t *testing.T) {
	root := t.TempDir()
	os.MkdirAll(filepath.Join(root, "pub", "d"), 0o755)
	os.WriteFile(filepath.Join(root, "secret.txt"), []byte("SECRET"), 0o644)
	os.WriteFile(filepath.Join(root, "pub", "f.txt"), []byte("inside"), 0o644)
	os.WriteFile(filepath.Join(root, "pub", "d", "g.txt"), []byte("inside-too"), 0o644)
	dir := http.Dir(filepath.Join(root, "pub"))
	n, opened := 0, 0
	enum("./dfsecrt", 6, func(p string) {
		n++
		f, err := dir.Open(p)
		if err != nil {
			return
		}
		defer f.Close()
		opened++
		fi, err := f.Stat()
		if err != nil || fi.IsDir() {
			return
		}
		data, _ := io.ReadAll(f)
		if string(data) == "SECRET" {
			t.Fatalf("http.Dir.Open(%q) escaped the directory", p)
		}
	})
	for _, p := range []string{"../secret.txt", "/../secret.txt", "d/../../secret.txt", "/d/../../secret.txt", "..\\secret.txt", "/%2e%2e/secret.txt", "//..//secret.txt"} {
		if f, err := dir.Open(p); err == nil {
			data, _ := io.ReadAll(f)
			f.Close()
			if string(data) == "SECRET" {
				t.Fatalf("http.Dir.Open(%q) escaped the directory", p)
			}
		}
	}
	rec := httptest.NewRecorder()
	req := httptest.NewRequest("GET", "/f.txt", nil)
	http.ServeContent(rec, req, "f.txt", fiTime(t, filepath.Join(root, "pub", "f.txt")), bytes.NewReader([]byte("inside")))
	if rec.Body.String() != "inside" {
		t.Fatalf("ServeContent body %q", rec.Body.String())
	}
	fmt.Printf("AUDIT-STATS static: %d path strings up to length 6 over {., /, d, f, s, e, c, r, t} (%d opened), 7 traversal shapes\n", n, opened)
}

// trusted/encoding.spec and trusted/reflect.spec: encoders round-trip sample values; kinds of ValueOf.
func TestAuditEncodingReflect(t *testing.T) {
	type inner struct {
		A int      `json:"a" xml:"a"`
		B []string `json:"b" xml:"b"`
	}
	type outer struct {
		XMLName xml.Name `json:"-" xml:"outer"`
		S       string   `json:"s" xml:"s"`
		I       inner    `json:"i" xml:"i"`
		F       float64  `json:"f" xml:"f"`
	}
	for _, indent := range []string{"", "  ", "\t"} {
		for _, v := range []outer{{}, {S: "x<y>&\"'", I: inner{A: -3, B: []string{"p", "", "q r"}}, F: 1.5}, {S: "中国\n", F: -0.25}} {
			var jb bytes.Buffer
			je := json.NewEncoder(&jb)
			if indent != "" {
				je.SetIndent("", indent)
			}
			if err := je.Encode(v); err != nil {
				t.Fatal(err)
			}
			var jv outer
			if err := json.Unmarshal(jb.Bytes(), &jv); err != nil || !reflect.DeepEqual(normal(jv), normal(v)) {
				t.Fatalf("json round trip (%q): %v -> %s -> %v (%v)", indent, v, jb.String(), jv, err)
			}
			var xb bytes.Buffer
			xe := xml.NewEncoder(&xb)
			if indent != "" {
				xe.Indent("", indent)
			}
			if err := xe.Encode(v); err != nil {
				t.Fatal(err)
			}
			var xv outer
			if err := xml.Unmarshal(xb.Bytes(), &xv); err != nil || !reflect.DeepEqual(normal(xv), normal(v)) {
				t.Fatalf("xml round trip (%q): %v -> %s -> %v (%v)", indent, v, xb.String(), xv, err)
			}
		}
	}
	if reflect.ValueOf(7).Kind() != 2 || reflect.ValueOf(7).Int() != 7 || reflect.ValueOf("s").Kind() != 24 || reflect.ValueOf("s").String() != "s" {
		t.Fatal("reflect kinds of int/string differ from trusted/reflect.spec")
	}
	if (reflect.Value{}).IsValid() {
		t.Fatal("zero reflect.Value is valid")
	}
	fmt.Printf("AUDIT-STATS encoding/reflect: 3 values x 3 indentations x {json, xml}; kind constants\n")
}

func normal(o interface{}) interface{} {
	b, _ := json.Marshal(o)
	var v interface{}
	json.Unmarshal(b, &v)
	return v
}
