package route

// BOUNDED stand-in for the two assumed facts the C02/C08 contracts rest on and
// that the contracts cannot reach (they are statements about the regexp syntax,
// which the verifier only knows through uninterpreted functions):
//
//	(A) nonCapturing(e) has no capturing group and denotes the same language as e,
//	    for every expression e that compiles on its own;
//	(B) constructMatchStyleRegex accepts a segment iff every bind expression compiles
//	    on its own, and then yields a regexp with exactly one capturing group per bind
//	    whose i-th sub-match is a full match of the i-th bind's own expression.
//
// Exhaustive over all expressions up to length N (quick 4, thorough 5) over the
// regex-syntax part of the grammar's <any> class, plus a list of hand-written
// shapes (nested groups, classes, flags, \Q..\E) and two-bind segments.
// Labelled bounded; never counted as proof.

import (
	"encoding/json"
	"fmt"
	"os"
	"regexp"
	"runtime"
	"strconv"
	"strings"
	"sync"
	"testing"
)

func TestVerifBoundedC02(t *testing.T) {
	n := 4
	if os.Getenv("VERIF_TIER") == "thorough" {
		n = 5
	}
	if v := os.Getenv("VERIF_BOUND"); v != "" {
		n, _ = strconv.Atoi(v)
	}
	alphabet := []byte(`()?[]\|a*iQE-`)
	inputAlphabet := []byte(`a()?:]\A`)
	var inputs []string
	var gen func(prefix string, k int)
	gen = func(prefix string, k int) {
		inputs = append(inputs, prefix)
		if k == 0 {
			return
		}
		for _, c := range inputAlphabet {
			gen(prefix+string(c), k-1)
		}
	}
	gen("", 3)
	var shortInputs []string
	for _, w := range inputs {
		if len(w) <= 2 {
			shortInputs = append(shortInputs, w)
		}
	}

	parser, err := NewParser()
	if err != nil {
		t.Fatal(err)
	}

	type fail struct{ Input, What string }
	var mu sync.Mutex
	var fails []fail
	count, compiled := 0, 0

	// checkExpr checks (A) and the single-bind instance of (B) for one expression.
	checkExpr := func(e string) {
		what := ""
		func() {
			defer func() {
				if r := recover(); r != nil {
					what = fmt.Sprintf("panic: %v", r)
				}
			}()
			own, ownErr := regexp.Compile("^(?:" + e + ")$")
			if _, err := regexp.Compile(e); err != nil {
				ownErr = err
			}
			// (B) through the real construction, on a parsed segment
			rt, perr := parser.Parse("/{a: /" + e + "/}z")
			if perr != nil {
				return // outside the route grammar: not an expression a user can register
			}
			re, binds, cerr := constructMatchStyleRegex(rt.Segments[0])
			if (cerr == nil) != (ownErr == nil) {
				what = fmt.Sprintf("construction accepts=%v but the expression compiles=%v", cerr == nil, ownErr == nil)
				return
			}
			if ownErr != nil {
				return
			}
			mu.Lock()
			compiled++
			mu.Unlock()
			// (A)
			ne := nonCapturing(e)
			nre, err := regexp.Compile("^(?:" + ne + ")$")
			if err != nil {
				what = "nonCapturing result does not compile: " + err.Error()
				return
			}
			if nre.NumSubexp() != 0 {
				what = fmt.Sprintf("nonCapturing result %q keeps %d capturing group(s)", ne, nre.NumSubexp())
				return
			}
			if re.NumSubexp() != len(binds) || len(binds) != 1 {
				what = fmt.Sprintf("constructed regexp %q has %d groups for %d bind(s)", re.String(), re.NumSubexp(), len(binds))
				return
			}
			for _, w := range inputs {
				if own.MatchString(w) != nre.MatchString(w) {
					what = fmt.Sprintf("language differs on %q: expression=%v nonCapturing=%v", w, own.MatchString(w), nre.MatchString(w))
					return
				}
				sm := re.FindStringSubmatch(w + "z")
				if (sm != nil) != own.MatchString(w) {
					// the construction is anchored and appends the literal z
					what = fmt.Sprintf("segment %q: constructed regexp matches=%v, expression matches %q=%v", w+"z", sm != nil, w, own.MatchString(w))
					return
				}
				if sm != nil && sm[1] != w {
					what = fmt.Sprintf("segment %q: bind value %q is not the text its expression matched", w+"z", sm[1])
					return
				}
			}
		}()
		mu.Lock()
		count++
		if what != "" && len(fails) < 50 {
			fails = append(fails, fail{e, what})
		}
		mu.Unlock()
	}

	// checkPair checks (B) for a segment with two binds separated by a literal.
	checkPair := func(e1, e2 string) {
		what := ""
		func() {
			defer func() {
				if r := recover(); r != nil {
					what = fmt.Sprintf("panic: %v", r)
				}
			}()
			rt, perr := parser.Parse("/{a: /" + e1 + "/}-{b: /" + e2 + "/}")
			if perr != nil {
				return
			}
			_, err1 := regexp.Compile(e1)
			_, err2 := regexp.Compile(e2)
			re, binds, cerr := constructMatchStyleRegex(rt.Segments[0])
			if (cerr == nil) != (err1 == nil && err2 == nil) {
				what = fmt.Sprintf("construction accepts=%v but the expressions compile=%v,%v", cerr == nil, err1 == nil, err2 == nil)
				return
			}
			if cerr != nil {
				return
			}
			if re.NumSubexp() != 2 || len(binds) != 2 {
				what = fmt.Sprintf("constructed regexp %q has %d groups for %d binds", re.String(), re.NumSubexp(), len(binds))
				return
			}
			o1 := regexp.MustCompile("^(?:" + e1 + ")$")
			o2 := regexp.MustCompile("^(?:" + e2 + ")$")
			for _, w1 := range shortInputs {
				for _, w2 := range shortInputs {
					sm := re.FindStringSubmatch(w1 + "-" + w2)
					if sm == nil {
						continue
					}
					if !o1.MatchString(sm[1]) || !o2.MatchString(sm[2]) || sm[1]+"-"+sm[2] != w1+"-"+w2 {
						what = fmt.Sprintf("segment %q: values %q,%q do not match their own expressions in full", w1+"-"+w2, sm[1], sm[2])
						return
					}
				}
			}
		}()
		mu.Lock()
		count++
		if what != "" && len(fails) < 50 {
			fails = append(fails, fail{e1 + "\x00" + e2, what})
		}
		mu.Unlock()
	}

	shapes := []string{
		`a`, `(a)`, `(a|b)+`, `((a)(b))`, `(a(b(c)?)?)?`, `v[0-9]+(\.[0-9]+(\.[0-9]+)?)?`, `[(]a[)]`, `[]()]`, `[^]()]`, `[a\]()]`,
		`\(a\)`, `\\(a)`, `(?i)a`, `(?i)(a)`, `(?i)((a))`, `\Q(\E`, `\Q(a)\E(b)`, `a)(b`, `(a`, `a)`, `()`, `(())`, `(|a)`, `(a)*(b)*`,
		`[[:alpha:]](a)`, `(\()`, `(\))`, `([)])`, `a{2}(b){2}`, `(?s)(.)`, `(?U)(a+)`, `(?P`, `(?`, `(?i`, `(?i)`, `\`, `(a\`, `[`, `[(`, `(.*) (.*)`,
		// top-level alternation, also between groups (an expression that starts with '(' and ends with ')' need not be one group)
		`a|b`, `(a)|(b)`, `(a)|b`, `a|(b)`, `(a|b)|(c)`, `(ab)|(ba)`, `(a)(b)|(c)`, `(a)|(b)|(c)`, `(a)b(c)`, `(a)?|(b)+`,
	}

	if in := os.Getenv("VERIF_REPLAY_INPUT"); in != "" {
		var f fail
		json.Unmarshal([]byte(in), &f)
		if i := strings.IndexByte(f.Input, 0); i >= 0 {
			checkPair(f.Input[:i], f.Input[i+1:])
		} else {
			checkExpr(f.Input)
		}
	} else {
		work := make(chan func(), 1024)
		var wg sync.WaitGroup
		for w := 0; w < runtime.NumCPU(); w++ {
			wg.Add(1)
			go func() {
				defer wg.Done()
				for f := range work {
					f()
				}
			}()
		}
		var enum func(prefix string, k int)
		enum = func(prefix string, k int) {
			if prefix != "" {
				p := prefix
				work <- func() { checkExpr(p) }
			}
			if k == 0 {
				return
			}
			for _, c := range alphabet {
				enum(prefix+string(c), k-1)
			}
		}
		enum("", n)
		for _, s := range shapes {
			s := s
			work <- func() { checkExpr(s) }
			for _, s2 := range shapes {
				s2 := s2
				work <- func() { checkPair(s, s2) }
			}
		}
		close(work)
		wg.Wait()
	}
	for _, f := range fails {
		b, _ := json.Marshal(f)
		fmt.Printf("REPLAY-FAIL %s\n", b)
	}
	fmt.Printf("BOUNDED-STATS {\"bound\": %d, \"alphabet\": %q, \"expressions\": %d, \"compiling\": %d, \"inputs_per_expression\": %d, \"shapes\": %d, \"disagreements\": %d}\n",
		n, string(alphabet), count, compiled, len(inputs), len(shapes), len(fails))
	if len(fails) > 0 {
		t.Fail()
	}
}
