package route

// Bounded stand-in for the parser half of C06 (labelled bounded, never counted as proof): exhaustive enumeration of
// all strings up to length N over a token alphabet, comparing Parser.Parse with a reference recogniser of the BNF in
// internal/route/README.md (character classes re-read from the README on every run), plus structure mirroring and
// the canonical-form fixpoint. Injected with `go test -overlay`; never written into /repo.

import (
	"encoding/json"
	"fmt"
	"os"
	"regexp"
	"runtime"
	"strconv"
	"strings"
	"sync"
	"testing"
)

type refElem struct {
	Kind   string // ident, bind, params
	Ident  string
	Params [][3]string // ident, kind(lit|re), value
}
type refSeg struct {
	Optional bool
	Elems    []refElem
}

type refParser struct {
	s         string
	p         int
	char, any map[byte]bool
}

func (r *refParser) ident() (string, bool) {
	st := r.p
	for r.p < len(r.s) && r.char[r.s[r.p]] {
		r.p++
	}
	return r.s[st:r.p], r.p > st
}

func (r *refParser) spaces() {
	for r.p < len(r.s) && r.s[r.p] == ' ' {
		r.p++
	}
}

func (r *refParser) param() ([3]string, bool) {
	id, ok := r.ident()
	if !ok || r.p >= len(r.s) || r.s[r.p] != ':' {
		return [3]string{}, false
	}
	r.p++
	r.spaces()
	if r.p < len(r.s) && r.s[r.p] == '/' {
		r.p++
		st := r.p
		for r.p < len(r.s) && r.any[r.s[r.p]] {
			r.p++
		}
		if r.p == st || r.p >= len(r.s) || r.s[r.p] != '/' {
			return [3]string{}, false
		}
		v := r.s[st:r.p]
		r.p++
		return [3]string{id, "re", v}, true
	}
	v, ok := r.ident()
	if !ok {
		return [3]string{}, false
	}
	return [3]string{id, "lit", v}, true
}

func (r *refParser) element() (refElem, bool) {
	if id, ok := r.ident(); ok {
		return refElem{Kind: "ident", Ident: id}, true
	}
	if r.p >= len(r.s) || r.s[r.p] != '{' {
		return refElem{}, false
	}
	save := r.p
	r.p++
	// "{" ident "}"
	if id, ok := r.ident(); ok && r.p < len(r.s) && r.s[r.p] == '}' {
		r.p++
		return refElem{Kind: "bind", Ident: id}, true
	}
	r.p = save + 1
	var ps [][3]string
	for {
		p, ok := r.param()
		if !ok {
			r.p = save
			return refElem{}, false
		}
		ps = append(ps, p)
		if r.p < len(r.s) && r.s[r.p] == ',' {
			r.p++
			r.spaces()
			continue
		}
		break
	}
	if r.p >= len(r.s) || r.s[r.p] != '}' {
		r.p = save
		return refElem{}, false
	}
	r.p++
	return refElem{Kind: "params", Params: ps}, true
}

func (r *refParser) route() ([]refSeg, bool) {
	var segs []refSeg
	for r.p < len(r.s) {
		if r.s[r.p] != '/' {
			return nil, false
		}
		r.p++
		sg := refSeg{}
		if r.p < len(r.s) && r.s[r.p] == '?' {
			sg.Optional = true
			r.p++
		}
		for {
			e, ok := r.element()
			if !ok {
				break
			}
			sg.Elems = append(sg.Elems, e)
		}
		segs = append(segs, sg)
	}
	return segs, len(segs) > 0
}

func readClasses(t *testing.T) (map[byte]bool, map[byte]bool) {
	data, err := os.ReadFile("README.md")
	if err != nil {
		t.Fatal(err)
	}
	class := func(name string) string {
		m := regexp.MustCompile(`(?m)^<` + name + `> ::= (.*)$`).FindStringSubmatch(string(data))
		if m == nil {
			t.Fatalf("README.md: no <%s> rule", name)
		}
		return m[1]
	}
	parse := func(rule string, base map[byte]bool) map[byte]bool {
		out := map[byte]bool{}
		for k := range base {
			out[k] = true
		}
		for _, alt := range strings.Split(rule, "|") {
			alt = strings.TrimSpace(alt)
			switch {
			case alt == "":
				// the "|" character itself is written as "|" between quotes and split away: handled below
			case regexp.MustCompile(`^\[.-.\]$`).MatchString(alt):
				for c := alt[1]; c <= alt[3]; c++ {
					out[c] = true
				}
			case strings.HasPrefix(alt, `"`) && strings.HasSuffix(alt, `"`) && len(alt) >= 3:
				lit, err := strconv.Unquote(alt)
				if err == nil && len(lit) == 1 {
					out[lit[0]] = true
				}
			}
		}
		return out
	}
	char := parse(class("char"), nil)
	anyRule := class("any")
	var base map[byte]bool
	if strings.Contains(anyRule, "<char>") {
		base = char
	}
	anyc := parse(strings.ReplaceAll(anyRule, "<char>", ""), base)
	if strings.Contains(anyRule, `"|"`) {
		anyc['|'] = true
	}
	return char, anyc
}

func mirror(r *Route, ref []refSeg) string {
	if len(r.Segments) != len(ref) {
		return fmt.Sprintf("segments %d vs %d", len(r.Segments), len(ref))
	}
	for i, s := range r.Segments {
		if s.Optional != ref[i].Optional {
			return fmt.Sprintf("segment %d optional", i)
		}
		if len(s.Elements) != len(ref[i].Elems) {
			return fmt.Sprintf("segment %d elements %d vs %d", i, len(s.Elements), len(ref[i].Elems))
		}
		for j, e := range s.Elements {
			re := ref[i].Elems[j]
			switch re.Kind {
			case "ident":
				if e.Ident == nil || *e.Ident != re.Ident {
					return fmt.Sprintf("segment %d element %d ident", i, j)
				}
			case "bind":
				if e.BindIdent == nil || *e.BindIdent != re.Ident {
					return fmt.Sprintf("segment %d element %d bind", i, j)
				}
			case "params":
				if e.BindParameters == nil || len(e.BindParameters.Parameters) != len(re.Params) {
					return fmt.Sprintf("segment %d element %d params", i, j)
				}
				for k, p := range e.BindParameters.Parameters {
					rp := re.Params[k]
					if p.Ident != rp[0] {
						return fmt.Sprintf("param %d ident", k)
					}
					if rp[1] == "re" && (p.Value.Regex == nil || *p.Value.Regex != rp[2]) {
						return fmt.Sprintf("param %d regex", k)
					}
					if rp[1] == "lit" && (p.Value.Literal == nil || *p.Value.Literal != rp[2]) {
						return fmt.Sprintf("param %d literal", k)
					}
				}
			}
		}
	}
	return ""
}

// normalise: the input with spacing after ':' and ',' inside braces reduced to one blank
func normalise(s string) string {
	var sb strings.Builder
	depth, inRe := 0, false
	for i := 0; i < len(s); i++ {
		c := s[i]
		sb.WriteByte(c)
		switch {
		case inRe:
			inRe = c != '/'
		case c == '{':
			depth++
		case c == '}':
			depth--
		case depth > 0 && c == '/':
			inRe = true
		case depth > 0 && (c == ':' || c == ','):
			for i+1 < len(s) && s[i+1] == ' ' {
				i++
			}
			sb.WriteByte(' ')
		}
	}
	return sb.String()
}

func TestVerifBoundedC06(t *testing.T) {
	char, anyc := readClasses(t)
	parser, err := NewParser()
	if err != nil {
		t.Fatal(err)
	}
	n := 4
	if os.Getenv("VERIF_TIER") == "thorough" {
		n = 6
	}
	if v := os.Getenv("VERIF_BOUND"); v != "" {
		n, _ = strconv.Atoi(v)
	}
	known := map[string]bool{}
	json.Unmarshal([]byte(os.Getenv("VERIF_KNOWN")), &known)
	alphabet := []byte("/?{}:, a*.(\\|[%0$")
	editAlphabet := append(append([]byte{}, alphabet...), '\t', '\n', '\r', '}', ']', ')', '-', '_', '~', '@', 'Z', '9', '#', '<', '"', 0x7f, 0xc3) // near misses use more characters, incl. other white space

	type fail struct{ Input, What string }
	var mu sync.Mutex
	var fails []fail
	count := 0
	accepted := 0
	check := func(s string) {
		var route *Route
		var perr error
		panicked := ""
		func() {
			defer func() {
				if r := recover(); r != nil {
					panicked = fmt.Sprint(r)
				}
			}()
			route, perr = parser.Parse(s)
		}()
		rp := &refParser{s: s, char: char, any: anyc}
		ref, refOK := rp.route()
		refOK = refOK && rp.p == len(s)
		what := ""
		switch {
		case panicked != "":
			what = "panic: " + panicked
		case (perr == nil) != refOK:
			what = fmt.Sprintf("parser accepts=%v grammar accepts=%v", perr == nil, refOK)
		case perr == nil:
			if m := mirror(route, ref); m != "" {
				what = "structure: " + m
			} else {
				canon := route.String()
				if canon != normalise(s) {
					what = fmt.Sprintf("canonical %q != normalised input %q", canon, normalise(s))
				} else if r2, err := parser.Parse(canon); err != nil {
					what = "canonical form does not parse: " + err.Error()
				} else if r2.String() != canon {
					what = "canonical form is not a fixpoint"
				}
			}
		}
		mu.Lock()
		count++
		if perr == nil {
			accepted++
		}
		if what != "" && len(fails) < 50 {
			fails = append(fails, fail{s, what})
		}
		mu.Unlock()
	}
	if in := os.Getenv("VERIF_REPLAY_INPUT"); in != "" {
		var f fail
		json.Unmarshal([]byte(in), &f)
		check(f.Input)
	} else {
		work := make(chan string, 1024)
		var wg sync.WaitGroup
		for w := 0; w < runtime.NumCPU(); w++ {
			wg.Add(1)
			go func() {
				defer wg.Done()
				for s := range work {
					check(s)
				}
			}()
		}
		var gen func(prefix []byte, left int)
		gen = func(prefix []byte, left int) {
			work <- string(prefix)
			if left == 0 {
				return
			}
			for _, c := range alphabet {
				gen(append(prefix, c), left-1)
			}
		}
		gen(nil, n)
		// long inputs: "always terminates with either a route or an error" and "accepts exactly the grammar" have no length limit
		for _, reps := range []int{300, 1100, 2500} {
			work <- strings.Repeat("/a", reps)
			work <- "/" + strings.Repeat("a{b}", reps)
			work <- "/{a:" + strings.Repeat(" ", reps) + "b}"
			work <- "/{a: b," + strings.Repeat(" ", reps) + "c: d}"
			work <- "/{a: /" + strings.Repeat("x", reps) + "/}"
			work <- "/{" + strings.Repeat("a: b, ", reps) + "z: y}"
			work <- "/" + strings.Repeat("a", reps) + "/?{" + strings.Repeat("b", reps) + "}"
			work <- strings.Repeat("/a", reps) + "{" // a long prefix of a route that is not one
		}
		// derivations of the grammar beyond the exhaustive length, with all single-character edits (near misses)
		idents := []string{"a", "*", "0.", "b$"}
		regexes := []string{"b", "[a]+", "(a|b)", "a{2, 3}"}
		spaces := []string{"", " ", "  "}
		var elems []string
		for _, id := range idents {
			elems = append(elems, id, "{"+id+"}")
			for _, sp := range spaces {
				for _, v := range idents[:2] {
					elems = append(elems, "{"+id+":"+sp+v+"}")
				}
				for _, re := range regexes {
					elems = append(elems, "{"+id+":"+sp+"/"+re+"/}")
					elems = append(elems, "{"+id+":"+sp+"/"+re+"/,"+sp+"c: **}")
				}
			}
		}
		var segs []string
		for _, opt := range []string{"", "?"} {
			segs = append(segs, "/"+opt)
			for _, e := range elems {
				segs = append(segs, "/"+opt+e)
			}
		}
		for i, e1 := range elems {
			segs = append(segs, "/"+e1+elems[(i*7+3)%len(elems)])
		}
		for i, s1 := range segs {
			work <- s1
			work <- s1 + segs[(i*13+5)%len(segs)]
			for k := 0; k <= len(s1); k++ {
				if k < len(s1) {
					work <- s1[:k] + s1[k+1:]
				}
				for _, c := range editAlphabet {
					work <- s1[:k] + string(c) + s1[k:]
					if k < len(s1) {
						work <- s1[:k] + string(c) + s1[k+1:] // replacement
					}
				}
			}
		}
		close(work)
		wg.Wait()
	}
	newFails := 0
	for _, f := range fails {
		cls := f.What
		if i := strings.Index(cls, ":"); i > 0 {
			cls = cls[:i]
		}
		b, _ := json.Marshal(f)
		if known[f.Input] {
			fmt.Printf("BOUNDED-KNOWN %s\n", b)
			continue
		}
		newFails++
		fmt.Printf("REPLAY-FAIL %s\n", b)
	}
	fmt.Printf("BOUNDED-STATS {\"bound\": %d, \"alphabet\": %q, \"strings\": %d, \"accepted\": %d, \"disagreements\": %d}\n", n, string(alphabet), count, accepted, len(fails))
	if newFails > 0 {
		t.Fail()
	}
}
