package flamego

// Witness search for C16 (run only after a deductive obligation of C16 failed, or by ./check C16 --witness):
// the real Static middleware serves a small directory tree for enumerated methods, prefixes and paths (including
// "..", doubled slashes, look-alike prefixes, directories with and without index, an index that is a directory)
// and every response is compared with the statement.  Finding nothing proves nothing.

import (
	"encoding/json"
	"fmt"
	"io"
	"net/http/httptest"
	"os"
	"path"
	"path/filepath"
	"strings"
	"testing"
)

type c16Input struct {
	Method string
	Prefix string
	Index  string
	Path   string
	MapFS  bool
}

func c16Tree(t *testing.T) string {
	root := t.TempDir()
	files := map[string]string{
		"secret.txt":            "SECRET",
		"pub/hello.txt":         "hello",
		"pub/ity/notes.txt":     "notes",
		"pub/d/index.html":      "<p>d index</p>",
		"pub/d/page.txt":        "page",
		"pub/home/home/x.txt":   "x",
		"pub/e/index.html/k.md": "k",
		"pub/noindex/f.txt":     "f",
		"pub/public/inner.txt":  "inner",
	}
	for name, content := range files {
		p := filepath.Join(root, filepath.FromSlash(name))
		os.MkdirAll(filepath.Dir(p), 0o755)
		os.WriteFile(p, []byte(content), 0o644)
	}
	return root
}

// what the statement allows for this request: (serve content) | (redirect to) | silent
func c16Expect(root string, in c16Input) (kind, arg string) {
	if in.Method != "GET" && in.Method != "HEAD" {
		return "silent", ""
	}
	rel := in.Path
	if in.Prefix != "" {
		p := "/" + strings.Trim(in.Prefix, "/")
		if !strings.HasPrefix(rel, p) {
			return "silent", ""
		}
		rel = rel[len(p):]
		if rel != "" && rel[0] != '/' {
			return "silent", ""
		}
	}
	index := in.Index
	if index == "" {
		index = "index.html"
	}
	// containment: the file system resolves the name inside its directory
	inside := filepath.Join(root, "pub", filepath.FromSlash(path.Clean("/"+rel)))
	fi, err := os.Stat(inside)
	if err != nil {
		return "silent", ""
	}
	if !fi.IsDir() {
		data, _ := os.ReadFile(inside)
		return "serve", string(data)
	}
	// the slash-terminated form of the (cleaned) request path
	clean := path.Clean(in.Path)
	if strings.HasSuffix(in.Path, "/") && !strings.HasSuffix(clean, "/") {
		clean += "/"
	}
	if !strings.HasSuffix(clean, "/") {
		return "redirect", clean + "/"
	}
	idx := filepath.Join(inside, index)
	fi, err = os.Stat(idx)
	if err != nil || fi.IsDir() {
		return "silent", ""
	}
	data, _ := os.ReadFile(idx)
	return "serve", string(data)
}

func c16Check(root string, in c16Input) string {
	f := NewWithLogger(io.Discard)
	f.Use(Static(StaticOptions{Directory: filepath.Join(root, "pub"), Prefix: in.Prefix, Index: in.Index,
		CacheControl: func() string { return "cc-marker" }, SetETag: true}))
	sentinel := false
	f.NotFound(func(c Context) {
		sentinel = true
		c.ResponseWriter().WriteHeader(418)
	})
	req := httptest.NewRequest(in.Method, "/", nil)
	req.URL.Path = in.Path
	rec := httptest.NewRecorder()
	escaped := ""
	func() {
		defer func() {
			if r := recover(); r != nil {
				escaped = fmt.Sprint(r)
			}
		}()
		f.ServeHTTP(rec, req)
	}()
	if escaped != "" {
		return "panic: " + escaped
	}
	body := rec.Body.String()
	if strings.Contains(body, "SECRET") {
		return "content from outside the directory was sent"
	}
	kind, arg := c16Expect(root, in)
	switch kind {
	case "silent":
		if !sentinel || rec.Code != 418 {
			return fmt.Sprintf("want silence (rest of the chain answers 418); got status %d body %q, rest of the chain ran=%v", rec.Code, body, sentinel)
		}
		if rec.Header().Get("Cache-Control") != "" || rec.Header().Get("ETag") != "" {
			return "headers were set although nothing was served"
		}
	case "redirect":
		if sentinel || rec.Code != 302 || rec.Header().Get("Location") != arg {
			return fmt.Sprintf("want a redirect to %q; got status %d Location %q", arg, rec.Code, rec.Header().Get("Location"))
		}
	case "serve":
		if sentinel || rec.Code != 200 {
			return fmt.Sprintf("want the file served; got status %d, rest of the chain ran=%v", rec.Code, sentinel)
		}
		if in.Method == "GET" && body != arg {
			return fmt.Sprintf("served %q, the file inside the directory holds %q", body, arg)
		}
		if in.Method == "HEAD" && body != "" {
			return "body sent for HEAD"
		}
	}
	return ""
}

func TestVerifReplayC16(t *testing.T) {
	root := c16Tree(t)
	if in := os.Getenv("VERIF_REPLAY_INPUT"); in != "" {
		var x c16Input
		json.Unmarshal([]byte(in), &x)
		if what := c16Check(root, x); what != "" {
			b, _ := json.Marshal(x)
			fmt.Printf("REPLAY-FAIL %s\n", b)
			t.Fatal(what)
		}
		return
	}
	comps := []string{"", "hello.txt", "public", "publicity", "public-old", "ity", "notes.txt", "d", "e", "home", "noindex", "index.html", "page.txt", "inner.txt", "..", ".", "secret.txt", "pub"}
	var paths []string
	seen := map[string]bool{}
	add := func(p string) {
		if !seen[p] {
			seen[p] = true
			paths = append(paths, p)
		}
	}
	for _, a := range comps {
		add("/" + a)
		for _, b := range comps {
			add("/" + a + "/" + b)
			for _, c := range comps {
				add("/" + a + "/" + b + "/" + c)
			}
		}
	}
	for _, p := range []string{"/publichello.txt", "/public/../secret.txt", "/public/d/../../secret.txt", "/public//hello.txt", "//public/hello.txt", "/public/%2e%2e/secret.txt", "/public/d", "/public/d/", "/public/e/", "/public/home/", "/public/hello.txt/"} {
		add(p)
	}
	count, found := 0, false
search:
	for _, prefix := range []string{"", "/public", "public/", "/public/"} {
		for _, index := range []string{"", "home"} {
			for _, m := range []string{"GET", "HEAD", "POST"} {
				for _, p := range paths {
					if (m != "GET" || index != "") && strings.Count(p, "/") > 2 {
						continue
					}
					in := c16Input{Method: m, Prefix: prefix, Index: index, Path: p}
					count++
					if what := c16Check(root, in); what != "" {
						b, _ := json.Marshal(in)
						fmt.Printf("REPLAY-FAIL %s\n", b)
						fmt.Printf("REPLAY-WHAT %s\n", what)
						found = true
						break search
					}
				}
			}
		}
	}
	fmt.Printf("REPLAY-STATS %d static requests, found=%v\n", count, found)
	if found {
		t.Fail()
	}
}
