package flamego

// Witness search for C07 (run only after a deductive obligation of C07 failed, by ./check C07 --witness, or in the
// thorough tier): valid route sets are served arbitrary byte strings as paths and arbitrary method tokens; the
// framework must not panic, must run exactly one chain, and repeating the request must give the same outcome.

import (
	"encoding/json"
	"fmt"
	"math/rand"
	"net/http"
	"os"
	"strconv"
	"strings"
	"testing"
)

var c07Sets = [][]string{
	{"/"}, {"/a", "/a/b", "/{x}"}, {"/{x: /[0-9]+/}/b", "/{y}/b", "/{p: **}"}, {"/a/?b", "/a/{z}/c"}, {"/s/{p: **}/end", "/s/{q: **, capture: 2}"},
	{"/v{maj: /[0-9]+/}.{min: /[0-9]+/}", "/{**}"}, {"/a/{p: **, capture: 1}/c", "/a/{y}"}, {"/?o"}, {"/{a}/{b}/{c}"}, {"/h/?k", "/h/k/l"},
}

type c07Input struct {
	Set     int
	Method  string
	Path    string // hex-escaped arbitrary bytes
	Headers bool   // the first route carries a header constraint
}

func c07Router(in c07Input) *vrRouter {
	v := vrNew()
	for i, r := range c07Sets[in.Set%len(c07Sets)] {
		rt := v.r.Any(r, func() {})
		if in.Headers && i == 0 {
			rt.Headers("X-K", "^v$")
		}
	}
	return v
}

func c07Check(in c07Input, v *vrRouter) string {
	path, err := strconv.Unquote(`"` + in.Path + `"`)
	if err != nil {
		path = in.Path
	}
	hds := []http.Header{{}, {"X-K": {"v"}}, {"X-K": {""}}}
	firsts := make([]vrOutcome, len(hds))
	for i, hd := range hds {
		first := v.serve(in.Method, path, hd)
		firsts[i] = first
		if first.Panicked != "" {
			return fmt.Sprintf("%s %q: the framework panicked: %s", in.Method, in.Path, first.Panicked)
		}
		if first.Chains != 1 {
			return fmt.Sprintf("%s %q: %d handler chains ran, want exactly one", in.Method, in.Path, first.Chains)
		}
		again := v.serve(in.Method, path, hd)
		if !vrSame(first, again) {
			return fmt.Sprintf("%s %q: first %v, repeated %v", in.Method, in.Path, first, again)
		}
	}
	// the outcome is a function of the routes and the request alone: the same requests again, after the others
	for i := len(hds) - 1; i >= 0; i-- {
		if again := v.serve(in.Method, path, hds[i]); !vrSame(firsts[i], again) {
			return fmt.Sprintf("%s %q with %v: first %v, after other requests %v", in.Method, in.Path, hds[i], firsts[i], again)
		}
	}
	return ""
}

func TestVerifReplayC07(t *testing.T) {
	if in := os.Getenv("VERIF_REPLAY_INPUT"); in != "" {
		var x c07Input
		json.Unmarshal([]byte(in), &x)
		if what := c07Check(x, c07Router(x)); what != "" {
			b, _ := json.Marshal(x)
			fmt.Printf("REPLAY-FAIL %s\n", b)
			t.Fatal(what)
		}
		return
	}
	seed, _ := strconv.Atoi(os.Getenv("VERIF_SEED"))
	rng := rand.New(rand.NewSource(int64(seed) + 7))
	paths := []string{"", "/", "//", "///", "/a", "/a/", "/a//", "//a//b//", "/a/b", "/a/b/c/d/e/f", "/%", "/%zz", "/%2", "/a/%2F/b", "/\xff\xfe", "/\x00", "a", "a/b", "?", "/?", "/a?b",
		"/1/b", "/x/b", "/s/end", "/s/x/end", "/s/1/2/3", "/s//end", "/v1.2", "/v1.", "/v.2", "/h", "/h/k", "/h/", "/o", "/{x}", "/{", "/}", strings.Repeat("/a", 300), "/" + strings.Repeat("x", 70000),
		strings.Repeat("/", 5000), "/a/" + strings.Repeat("b/", 400) + "c"}
	alphabet := []byte("/ab1.%{}?\x00\xffs-")
	for i := 0; i < 500; i++ {
		n := rng.Intn(12)
		b := make([]byte, n)
		for k := range b {
			b[k] = alphabet[rng.Intn(len(alphabet))]
		}
		paths = append(paths, string(b))
	}
	methods := []string{"GET", "POST", "HEAD", "OPTIONS", "PATCH", "BREW", "", "get", "G E T", "\xff"}
	count, found := 0, false
search:
	for s := range c07Sets {
		for _, hs := range []bool{false, true} {
			v := c07Router(c07Input{Set: s, Headers: hs})
			for _, m := range methods {
				for pi, p := range paths {
					if m != "GET" && (len(p) > 2000 || pi%4 != 0) {
						continue
					}
					q := strconv.Quote(p)
					in := c07Input{Set: s, Method: m, Path: q[1 : len(q)-1], Headers: hs}
					count++
					if what := c07Check(in, v); what != "" {
						b, _ := json.Marshal(in)
						fmt.Printf("REPLAY-FAIL %s\n", b)
						fmt.Printf("REPLAY-WHAT %s\n", what)
						found = true
						break search
					}
				}
			}
		}
	}
	fmt.Printf("REPLAY-STATS %d requests (arbitrary byte paths and method tokens) over %d route sets, found=%v\n", count, len(c07Sets), found)
	if found {
		t.Fail()
	}
}
