package flamego

// Witness search for C15 (run only after a deductive obligation of C15 failed, or by ./check C15 --witness):
// panics of several kinds, raised at several places of a chain behind Recovery, are served by the real framework
// in every environment and compared with the statement.  Finding nothing proves nothing.

import (
	"encoding/json"
	"errors"
	"fmt"
	"io"
	"net/http"
	"net/http/httptest"
	"os"
	"strings"
	"testing"
)

type c15Input struct {
	Env   string
	Value string // str err struct runtime abort
	Site  string // before after-status after-body dependency deep
}

type c15Unmapped struct{ X int }

const c15Marker = "PANIC-DETAIL-MARKER"

func c15Check(in c15Input) string {
	old := Env()
	SetEnv(EnvType(in.Env))
	defer SetEnv(old)
	f := NewWithLogger(io.Discard)
	afterNext := false
	f.Use(func(c Context) {
		c.Next()
		afterNext = true
	})
	f.Use(Recovery())
	raise := func() {
		switch in.Value {
		case "str":
			panic(c15Marker)
		case "err":
			panic(errors.New(c15Marker))
		case "struct":
			panic(struct{ M string }{c15Marker})
		case "runtime":
			var m map[string]int
			m[c15Marker] = 1
		case "abort":
			panic(http.ErrAbortHandler)
		}
	}
	var route []Handler
	wantStatus := 500
	prefix := ""
	switch in.Site {
	case "before":
		route = []Handler{func(c Context) { raise() }}
	case "after-status":
		wantStatus = 201
		route = []Handler{func(c Context) { c.ResponseWriter().WriteHeader(201); raise() }}
	case "after-body":
		wantStatus, prefix = 200, "partial"
		route = []Handler{func(c Context) { _, _ = c.ResponseWriter().Write([]byte("partial")); raise() }}
	case "dependency":
		if in.Value != "str" {
			return ""
		}
		route = []Handler{func(c Context, u *c15Unmapped) { _ = u }}
	case "hook":
		// a function registered with Before panics when the handler's return value is about to be written
		if in.Value != "str" && in.Value != "err" {
			return ""
		}
		route = []Handler{func(c Context) string {
			c.ResponseWriter().Before(func(ResponseWriter) { raise() })
			return "body"
		}}
	case "action":
		// Recovery is the last handler of the chain and the panic is raised by the final action
		if in.Value != "str" {
			return ""
		}
		f.Action(func(c Context) { raise() })
		f.Get("/boom")
		route = nil
	case "deep":
		route = []Handler{func(c Context) { c.Next() }, func(c Context) { c.Next() }, func(c Context) { raise() }}
	case "bad-status-return":
		// the panic is net/http's: the handler's return value names a status code no writer accepts
		if in.Value != "str" {
			return ""
		}
		route = []Handler{func() (int, string) { return 0, "x" }}
	case "bad-status-call":
		if in.Value != "str" {
			return ""
		}
		route = []Handler{func(c Context) { c.ResponseWriter().WriteHeader(1000) }}
	}
	if in.Site != "action" {
		f.Get("/boom", route...)
	}
	f.Get("/ok", func() string { return "fine" })
	rec := httptest.NewRecorder()
	escaped := ""
	func() {
		defer func() {
			if r := recover(); r != nil {
				escaped = fmt.Sprint(r)
			}
		}()
		f.ServeHTTP(rec, httptest.NewRequest("GET", "/boom", nil))
	}()
	if escaped != "" {
		return "the panic escaped ServeHTTP: " + escaped
	}
	if rec.Code != wantStatus {
		return fmt.Sprintf("status %d, want %d", rec.Code, wantStatus)
	}
	body := rec.Body.String()
	if !strings.HasPrefix(body, prefix) {
		return fmt.Sprintf("body %q lost what had been written before the panic", body)
	}
	if in.Env != string(EnvTypeDev) {
		if strings.Contains(body, c15Marker) || strings.Contains(body, "goroutine") || strings.Contains(body, ".go:") {
			return fmt.Sprintf("panic detail in the body outside development mode (%s): %q", in.Env, body)
		}
		if body != prefix+http.StatusText(500) {
			return fmt.Sprintf("body %q, want %q", body, prefix+http.StatusText(500))
		}
	}
	if !afterNext {
		return "middleware placed before Recovery did not complete its code after Next()"
	}
	rec2 := httptest.NewRecorder()
	f.ServeHTTP(rec2, httptest.NewRequest("GET", "/ok", nil))
	if rec2.Code != 200 || rec2.Body.String() != "fine" {
		return fmt.Sprintf("the request after the panic got %d %q", rec2.Code, rec2.Body.String())
	}
	return ""
}

func TestVerifReplayC15(t *testing.T) {
	if in := os.Getenv("VERIF_REPLAY_INPUT"); in != "" {
		var x c15Input
		json.Unmarshal([]byte(in), &x)
		if what := c15Check(x); what != "" {
			b, _ := json.Marshal(x)
			fmt.Printf("REPLAY-FAIL %s\n", b)
			t.Fatal(what)
		}
		return
	}
	count, found := 0, false
search:
	for _, env := range []string{string(EnvTypeProd), string(EnvTypeTest), string(EnvTypeDev)} {
		for _, v := range []string{"str", "err", "struct", "runtime", "abort"} {
			for _, site := range []string{"before", "after-status", "after-body", "dependency", "deep", "hook", "action", "bad-status-return", "bad-status-call"} {
				in := c15Input{Env: env, Value: v, Site: site}
				count++
				if what := c15Check(in); what != "" {
					b, _ := json.Marshal(in)
					fmt.Printf("REPLAY-FAIL %s\n", b)
					fmt.Printf("REPLAY-WHAT %s\n", what)
					found = true
					break search
				}
			}
		}
	}
	fmt.Printf("REPLAY-STATS %d panic scenarios, found=%v\n", count, found)
	if found {
		t.Fail()
	}
}
