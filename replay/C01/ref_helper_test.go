package route

// Reference reading of the dispatch statement (C01/C02/C12), written against the route grammar only: it
// works on the flat list of registered route texts, never on the tree.  Used by the witness-search drivers.

import (
	"net/http"
	"net/url"
	"regexp"
	"regexp/syntax"
	"strconv"
	"strings"
)

const (
	refStatic = iota + 1
	refRegex
	refPlaceholder
	refAll
)

type refSeg struct {
	text    string // canonical text of the segment, used to group routes that share a prefix
	kind    int
	literal string
	re      *regexp.Regexp
	binds   []string
	groups  []int // sub-match index of each bind
	capture int
}

type refRoute struct {
	text     string
	index    int // registration order
	segs     []refSeg
	optional bool // the last segment is optional
	headers  map[string]*regexp.Regexp
}

func refParse(p *Parser, text string, index int) (*refRoute, error) {
	ast, err := p.Parse(text)
	if err != nil {
		return nil, err
	}
	r := &refRoute{text: text, index: index}
	for i, s := range ast.Segments {
		rs := refSeg{text: strings.TrimPrefix(strings.TrimPrefix(s.String(), "/"), "?")}
		if s.Optional && i == len(ast.Segments)-1 {
			r.optional = true
		}
		els := s.Elements
		switch {
		case len(els) == 0:
			rs.kind, rs.literal = refStatic, ""
		case len(els) == 1 && els[0].Ident != nil:
			rs.kind, rs.literal = refStatic, *els[0].Ident
		case len(els) == 1 && els[0].BindIdent != nil && *els[0].BindIdent == "**":
			rs.kind, rs.binds = refAll, []string{"**"}
		case len(els) == 1 && els[0].BindIdent != nil:
			rs.kind, rs.binds = refPlaceholder, []string{*els[0].BindIdent}
		case els[0].BindParameters != nil && len(els[0].BindParameters.Parameters) > 0 &&
			els[0].BindParameters.Parameters[0].Value.Literal != nil && *els[0].BindParameters.Parameters[0].Value.Literal == "**":
			ps := els[0].BindParameters.Parameters
			rs.kind, rs.binds = refAll, []string{ps[0].Ident}
			if len(ps) > 1 && ps[1].Ident == "capture" && ps[1].Value.Literal != nil {
				rs.capture, _ = strconv.Atoi(*ps[1].Value.Literal)
			}
		default:
			rs.kind = refRegex
			var sb strings.Builder
			sb.WriteString("^")
			next := 1
			for _, e := range els {
				switch {
				case e.Ident != nil:
					sb.WriteString(regexp.QuoteMeta(*e.Ident))
				case e.BindIdent != nil:
					rs.binds = append(rs.binds, *e.BindIdent)
					rs.groups = append(rs.groups, next)
					next++
					sb.WriteString("(.+)")
				case e.BindParameters != nil:
					for _, p := range e.BindParameters.Parameters {
						if p.Value.Regex == nil {
							continue
						}
						expr := *p.Value.Regex
						tree, err := syntax.Parse(expr, syntax.Perl)
						if err != nil {
							return nil, err
						}
						rs.binds = append(rs.binds, p.Ident)
						rs.groups = append(rs.groups, next)
						next += 1 + tree.MaxCap()
						sb.WriteString("(" + expr + ")")
					}
				}
			}
			sb.WriteString("$")
			re, err := regexp.Compile(sb.String())
			if err != nil {
				return nil, err
			}
			rs.re = re
		}
		r.segs = append(r.segs, rs)
	}
	return r, nil
}

// one way a route admits a path
type refMatch struct {
	route   *refRoute
	long    bool // the optional segment was used
	key     []int
	raw     map[string]string // bind -> captured raw text
	nodeKey string
}

func refHeaderOK(r *refRoute, h http.Header) bool {
	for name, re := range r.headers {
		v := h.Get(name)
		if v == "" || !re.MatchString(v) {
			return false
		}
	}
	return true
}

// refAdmissions lists every way the form (segs) of route r admits the path segments.
func refAdmissions(r *refRoute, segs []refSeg, long bool, path []string, order func(prefix string, leaf bool, idx int) int) []refMatch {
	var out []refMatch
	var rec func(i, p int, key []int, raw map[string]string, prefix string)
	rec = func(i, p int, key []int, raw map[string]string, prefix string) {
		if i == len(segs) {
			if p == len(path) {
				cp := map[string]string{}
				for k, v := range raw {
					cp[k] = v
				}
				out = append(out, refMatch{route: r, long: long, key: append([]int{}, key...), raw: cp})
			}
			return
		}
		if p >= len(path) {
			return
		}
		s := segs[i]
		last := i == len(segs)-1
		nodePrefix := prefix + "/" + s.text
		ord := order(nodePrefix, last, r.index)
		switch s.kind {
		case refStatic:
			if path[p] == s.literal && (!last || p == len(path)-1) {
				rec(i+1, p+1, append(key, 0, refStatic, ord, 0), raw, nodePrefix)
			}
		case refPlaceholder:
			if !last || p == len(path)-1 {
				raw[s.binds[0]] = path[p]
				rec(i+1, p+1, append(key, 0, refPlaceholder, ord, 0), raw, nodePrefix)
				delete(raw, s.binds[0])
			}
		case refRegex:
			if !last || p == len(path)-1 {
				if sm := s.re.FindStringSubmatch(path[p]); sm != nil {
					for k, b := range s.binds {
						raw[b] = sm[s.groups[k]]
					}
					rec(i+1, p+1, append(key, 0, refRegex, ord, 0), raw, nodePrefix)
					for _, b := range s.binds {
						delete(raw, b)
					}
				}
			}
		case refAll:
			if last {
				n := len(path) - p
				if n >= 1 && (s.capture <= 0 || n <= s.capture) {
					raw[s.binds[0]] = strings.Join(path[p:], "/")
					class := 0
					if n > 1 {
						class = 1 // a match-all that ends a route is tried only after every alternative that continues
					}
					rec(i+1, len(path), append(key, class, refAll, ord, n), raw, nodePrefix)
					delete(raw, s.binds[0])
				}
			} else {
				for n := 1; p+n < len(path)+0 && (s.capture <= 0 || n <= s.capture); n++ {
					raw[s.binds[0]] = strings.Join(path[p:p+n], "/")
					rec(i+1, p+n, append(key, 0, refAll, ord, n), raw, nodePrefix)
					delete(raw, s.binds[0])
				}
			}
		}
	}
	rec(0, 0, nil, map[string]string{}, "")
	return out
}

func refLess(a, b []int) bool {
	for i := 0; i < len(a) && i < len(b); i++ {
		if a[i] != b[i] {
			return a[i] < b[i]
		}
	}
	return len(a) < len(b)
}

// refDispatch returns the winner among all admissions of all routes, by the documented priority.
func refDispatch(routes []*refRoute, path string, h http.Header) *refMatch {
	segs := strings.Split(strings.TrimLeft(path, "/"), "/")
	// creation order of tree positions: the first registered route (form) that has this prefix
	first := map[string]int{}
	forms := func(r *refRoute) [][]refSeg {
		fs := [][]refSeg{r.segs}
		if r.optional {
			short := r.segs[:len(r.segs)-1]
			if len(short) == 0 {
				short = []refSeg{{kind: refStatic, literal: "", text: ""}}
			}
			fs = [][]refSeg{short, r.segs} // the short form is added first
		}
		return fs
	}
	seq := 0
	for _, r := range routes {
		for _, f := range forms(r) {
			prefix := ""
			for i, s := range f {
				prefix += "/" + s.text
				k := prefix
				if i == len(f)-1 {
					k = "leaf:" + prefix
				}
				if _, ok := first[k]; !ok {
					first[k] = seq
					seq++
				}
			}
		}
	}
	order := func(prefix string, leaf bool, idx int) int {
		if leaf {
			return first["leaf:"+prefix]
		}
		return first[prefix]
	}
	var best *refMatch
	for _, r := range routes {
		if !refHeaderOK(r, h) {
			continue
		}
		for fi, f := range forms(r) {
			long := !r.optional || fi == 1
			for _, m := range refAdmissions(r, f, long, segs, order) {
				m := m
				if best == nil || refLess(m.key, best.key) {
					best = &m
				}
			}
		}
	}
	return best
}

func refDecode(s string) string {
	if u, err := url.PathUnescape(s); err == nil {
		return u
	}
	return s
}
