package route

// Witness search for C01 (run only after a deductive obligation of C01 failed, or by ./check C01 --witness):
// ordered sets of up to three routes from a pool that mixes static / regex / placeholder / match-all (+capture)
// and optional segments are registered in the real tree; every path of a small universe is matched and the
// chosen route compared with the reference reading of the statement (ref_helper_test.go).

import (
	"encoding/json"
	"fmt"
	"net/http"
	"os"
	"strings"
	"testing"
)

var c01Pool = []string{
	"/", "/a", "/a/b", "/{x}", "/{x}/b", "/a/{y}", "/{x: /[0-9]+/}", "/{x: /[0-9]+/}/b", "/v{n: /[0-9]+/}",
	"/{**}", "/a/{p: **}", "/{p: **, capture: 2}", "/{p: **}/b", "/{p: **, capture: 1}/b", "/a/?b", "/a/?{z}", "/{x}/?{y}",
	"/{q: /[a-z]+/}-{r}", "/{w: /(a|b)+/}/b", "/a/{**}/c",
}

func c01Paths() []string {
	comps := []string{"a", "b", "c", "1", "ab", "v1", "a-b", ""}
	seen := map[string]bool{}
	var out []string
	add := func(p string) {
		if !seen[p] {
			seen[p] = true
			out = append(out, p)
		}
	}
	add("")
	for _, x := range comps {
		add("/" + x)
		for _, y := range comps {
			add("/" + x + "/" + y)
			for _, z := range comps {
				add("/" + x + "/" + y + "/" + z)
			}
		}
	}
	for _, p := range []string{"//a", "//a/b", "/a//b", "/a/b/c/b", "/1/2/3/b", "/a/%62", "/%61", "/a/b/c/d/e", "/a/x/y/c", "/a/x/c/c"} {
		add(p)
	}
	return out
}

type c01Input struct {
	Routes []string
	Path   string
}

type c01Set struct {
	tree Tree
	refs []*refRoute
}

func c01Build(routes []string) *c01Set {
	parser, err := NewParser()
	if err != nil {
		return nil
	}
	set := &c01Set{tree: NewTree()}
	for i, text := range routes {
		ast, err := parser.Parse(text)
		if err != nil {
			return nil
		}
		if _, err := AddRoute(set.tree, ast, func(http.ResponseWriter, *http.Request, Params) {}); err != nil {
			return nil // an ill-formed combination: registration is C08's subject
		}
		rr, err := refParse(parser, text, i)
		if err != nil {
			return nil
		}
		set.refs = append(set.refs, rr)
	}
	return set
}

func (set *c01Set) check(path string) string {
	var leaf Leaf
	var ok bool
	panicked := ""
	func() {
		defer func() {
			if r := recover(); r != nil {
				panicked = fmt.Sprint(r)
			}
		}()
		leaf, _, ok = set.tree.Match(path, nil)
	}()
	if panicked != "" {
		return "panic: " + panicked
	}
	want := refDispatch(set.refs, path, nil)
	switch {
	case want == nil && ok:
		return fmt.Sprintf("dispatched to %q although no registered route admits the path", leaf.Route())
	case want != nil && !ok:
		return fmt.Sprintf("not found although %q admits the path", want.route.text)
	case want != nil && leaf.Route() != want.route.text:
		return fmt.Sprintf("dispatched to %q, the documented priority gives %q", leaf.Route(), want.route.text)
	}
	return ""
}

func c01Check(in c01Input) (what string, skipped bool) {
	set := c01Build(in.Routes)
	if set == nil {
		return "", true
	}
	return set.check(in.Path), false
}

func TestVerifReplayC01(t *testing.T) {
	if in := os.Getenv("VERIF_REPLAY_INPUT"); in != "" {
		var x c01Input
		json.Unmarshal([]byte(in), &x)
		if what, _ := c01Check(x); what != "" {
			b, _ := json.Marshal(x)
			fmt.Printf("REPLAY-FAIL %s\n", b)
			t.Fatal(what)
		}
		return
	}
	paths := c01Paths()
	count, sets, found := 0, 0, false
	try := func(routes []string) bool {
		sets++
		set := c01Build(routes)
		if set == nil {
			return false
		}
		for _, p := range paths {
			count++
			if what := set.check(p); what != "" {
				b, _ := json.Marshal(c01Input{Routes: routes, Path: p})
				fmt.Printf("REPLAY-FAIL %s\n", b)
				fmt.Printf("REPLAY-WHAT %s\n", what)
				return true
			}
		}
		return false
	}
search:
	for size := 1; size <= 3; size++ { // smallest sets first
		idx := make([]int, size)
		var rec func(k int) bool
		rec = func(k int) bool {
			if k == size {
				routes := make([]string, size)
				for i, j := range idx {
					routes[i] = c01Pool[j]
				}
				return try(routes)
			}
			for j := range c01Pool {
				dup := false
				for _, u := range idx[:k] {
					if u == j {
						dup = true
					}
				}
				if dup {
					continue
				}
				idx[k] = j
				if rec(k + 1) {
					return true
				}
			}
			return false
		}
		if rec(0) {
			found = true
			break search
		}
	}
	// wide nodes: many siblings under one node (insertion among more than a dozen entries), equally ranked pairs first
	if !found {
	wide:
		for _, shape := range [][2]string{{"/w/{a1: /[0-9]+/}/z", "/w/{a2: /[0-9]+/}/z"}, {"/w/{p1}/z", "/w/{p2}/z"}, {"/w/{a1: /[0-9]+/}", "/w/{a2: /[0-9]+/}"}, {"/w/{p1}", "/w/{p2}"}} {
			for n := 0; n <= 24; n++ {
				for _, pos := range []int{0, n / 2, n} { // where the equally ranked pair sits among the statics
					var routes []string
					for k := 0; k < n; k++ {
						if k == pos {
							routes = append(routes, shape[0], shape[1])
						}
						tail := "/z"
						if !strings.HasSuffix(shape[0], "/z") {
							tail = ""
						}
						routes = append(routes, fmt.Sprintf("/w/s%d%s", k, tail))
					}
					if pos >= n {
						routes = append(routes, shape[0], shape[1])
					}
					sets++
					set := c01Build(routes)
					if set == nil {
						continue
					}
					for _, p := range []string{"/w/5/z", "/w/5", "/w/s3/z", "/w/s3", "/w/x/z", "/w/x", "/w"} {
						count++
						if what := set.check(p); what != "" {
							b, _ := json.Marshal(c01Input{Routes: routes, Path: p})
							fmt.Printf("REPLAY-FAIL %s\n", b)
							fmt.Printf("REPLAY-WHAT %s\n", what)
							found = true
							break wide
						}
					}
				}
			}
		}
	}
	fmt.Printf("REPLAY-STATS %d ordered route sets (pool of %d, size <= 3), %d (set, path) matches compared, found=%v\n", sets, len(c01Pool), count, found)
	if found {
		t.Fail()
	}
}
