package flamego

// Witness search for C14 (run only after a deductive obligation of C14 failed, or by ./check C14 --witness):
// handlers of every return shape of the statement's table, with empty / nil / zero and non-empty values, are
// served by the real framework, reflectively and through the built-in fast path, and status, body and
// "the chain continues" are compared with the table.  Finding nothing proves nothing.

import (
	"encoding/json"
	"errors"
	"fmt"
	"io"
	"net/http/httptest"
	"os"
	"reflect"
	"testing"
)

type c14Err struct{ msg string }

func (e *c14Err) Error() string {
	if e == nil {
		return "typed-nil"
	}
	return e.msg
}

type c14Case struct {
	Name     string
	handler  interface{}
	status   int    // 0: nothing written, the chain continues
	body     string // expected body when status != 0
	noBody   bool
	pre      []Handler // handlers placed before (custom return handler scenarios)
	mapOnApp ReturnHandler
}

func c14Cases() []c14Case {
	var cases []c14Case
	add := func(name string, h interface{}, status int, body string) {
		cases = append(cases, c14Case{Name: name, handler: h, status: status, body: body})
	}
	strs := []string{"", "a", "hello\x00w"}
	byts := [][]byte{nil, {}, []byte("b"), []byte("by\xffte")}
	var typedNil *c14Err
	errs := []error{nil, errors.New("boom"), &c14Err{"custom"}, typedNil}
	for _, s := range strs {
		s := s
		st := 200
		if s == "" {
			st = 0
		}
		add(fmt.Sprintf("string %q", s), func() string { return s }, st, s)
		add(fmt.Sprintf("string %q with ctx", s), func(Context) string { return s }, st, s)
	}
	for _, b := range byts {
		b := b
		st := 200
		if len(b) == 0 {
			st = 0
		}
		add(fmt.Sprintf("[]byte %q", b), func() []byte { return b }, st, string(b))
	}
	for i, e := range errs {
		e := e
		if e == nil {
			add("error nil", func() error { return nil }, 0, "")
		} else {
			add(fmt.Sprintf("error #%d", i), func() error { return e }, 500, e.Error())
		}
	}
	for _, code := range []int{201, 404, 599, 600, 701, 999} {
		code := code
		for _, s := range strs {
			s := s
			add(fmt.Sprintf("(int %d, string %q) fast path", code, s), func() (int, string) { return code, s }, code, s)
			add(fmt.Sprintf("(int %d, string %q) reflective", code, s), func(Context) (int, string) { return code, s }, code, s)
		}
		for _, b := range byts {
			b := b
			add(fmt.Sprintf("(int %d, []byte %q)", code, b), func() (int, []byte) { return code, b }, code, string(b))
		}
		for i, e := range errs {
			e := e
			if e == nil {
				add(fmt.Sprintf("(int %d, error nil)", code), func() (int, error) { return code, nil }, code, "")
			} else {
				add(fmt.Sprintf("(int %d, error #%d)", code, i), func() (int, error) { return code, e }, code, e.Error())
			}
		}
	}
	for _, s := range strs {
		s := s
		for i, e := range errs {
			e := e
			if e == nil {
				st := 200
				if s == "" {
					st = 0
				}
				add(fmt.Sprintf("(string %q, error nil)", s), func() (string, error) { return s, nil }, st, s)
			} else {
				add(fmt.Sprintf("(string %q, error #%d)", s, i), func() (string, error) { return s, e }, 500, e.Error())
			}
		}
	}
	for _, b := range byts {
		b := b
		for i, e := range errs {
			e := e
			if e == nil {
				st := 200
				if len(b) == 0 {
					st = 0
				}
				add(fmt.Sprintf("([]byte %q, error nil)", b), func() ([]byte, error) { return b, nil }, st, string(b))
			} else {
				add(fmt.Sprintf("([]byte %q, error #%d)", b, i), func() ([]byte, error) { return b, e }, 500, e.Error())
			}
		}
	}
	// a return handler registered in the injector replaces the table
	custom := ReturnHandler(func(c Context, vals []reflect.Value) {
		c.ResponseWriter().WriteHeader(202)
		_, _ = c.ResponseWriter().Write([]byte(fmt.Sprintf("custom:%d", len(vals))))
	})
	cases = append(cases, c14Case{Name: "custom return handler mapped on the application", handler: func() string { return "x" }, status: 202, body: "custom:1", mapOnApp: custom})
	mapInRequest := func(c Context) { c.Map(custom) }
	cases = append(cases, c14Case{Name: "custom return handler mapped by a middleware", handler: func() (int, string) { return 404, "x" }, status: 202, body: "custom:2", pre: []Handler{mapInRequest}})
	cases = append(cases, c14Case{Name: "custom return handler mapped after an earlier handler returned nothing", handler: func() string { return "x" }, status: 202, body: "custom:1",
		pre: []Handler{func() error { return nil }, func() string { return "" }, mapInRequest}})
	return cases
}

func c14Check(cs c14Case) string {
	// the table holds wherever the handler sits (route handler or the final action) and for GET and HEAD alike
	for _, method := range []string{"GET", "HEAD"} {
		for _, asAction := range []bool{false, true} {
			if what := c14CheckAt(cs, method, asAction); what != "" {
				return fmt.Sprintf("[%s, %s] %s", method, map[bool]string{false: "route handler", true: "final action"}[asAction], what)
			}
		}
	}
	return ""
}

func c14CheckAt(cs c14Case, method string, asAction bool) string {
	f := NewWithLogger(io.Discard)
	if cs.mapOnApp != nil {
		f.Map(cs.mapOnApp)
	}
	sentinel := false
	hs := append([]Handler{}, cs.pre...)
	if asAction {
		f.Action(cs.handler)
	} else {
		hs = append(hs, cs.handler, func(c Context) {
			sentinel = true
			c.ResponseWriter().WriteHeader(299)
			_, _ = c.ResponseWriter().Write([]byte("SENTINEL"))
		})
	}
	if len(hs) == 0 {
		hs = append(hs, func() {})
	}
	f.Routes("/", method, hs...)
	rec := httptest.NewRecorder()
	wrote := false
	f.Use(func(c Context) {
		c.Next()
		wrote = c.ResponseWriter().Written()
	})
	panicked := ""
	func() {
		defer func() {
			if r := recover(); r != nil {
				panicked = fmt.Sprint(r)
			}
		}()
		f.ServeHTTP(rec, httptest.NewRequest(method, "/", nil))
	}()
	if panicked != "" {
		return "panic: " + panicked
	}
	wantBody := func(b string) string {
		if method == "HEAD" {
			return ""
		}
		return b
	}
	if cs.status == 0 {
		if asAction {
			if wrote || rec.Body.Len() != 0 {
				return fmt.Sprintf("want nothing written; got written=%v status %d body %q", wrote, rec.Code, rec.Body.String())
			}
			return ""
		}
		if !sentinel || rec.Code != 299 || rec.Body.String() != wantBody("SENTINEL") {
			return fmt.Sprintf("want nothing written and the chain to continue; got status %d body %q, next handler ran=%v", rec.Code, rec.Body.String(), sentinel)
		}
		return ""
	}
	if sentinel {
		return fmt.Sprintf("the chain continued although the table writes status %d", cs.status)
	}
	if !wrote || rec.Code != cs.status || rec.Body.String() != wantBody(cs.body) {
		return fmt.Sprintf("got written=%v status %d body %q, the table gives status %d body %q", wrote, rec.Code, rec.Body.String(), cs.status, wantBody(cs.body))
	}
	return ""
}

func TestVerifReplayC14(t *testing.T) {
	cases := c14Cases()
	only := ""
	if in := os.Getenv("VERIF_REPLAY_INPUT"); in != "" {
		var x struct{ Name string }
		json.Unmarshal([]byte(in), &x)
		only = x.Name
	}
	found := false
	for _, cs := range cases {
		if only != "" && cs.Name != only {
			continue
		}
		if what := c14Check(cs); what != "" {
			b, _ := json.Marshal(map[string]string{"Name": cs.Name})
			fmt.Printf("REPLAY-FAIL %s\n", b)
			fmt.Printf("REPLAY-WHAT %s: %s\n", cs.Name, what)
			found = true
			break
		}
	}
	fmt.Printf("REPLAY-STATS %d return shapes/values, found=%v\n", len(cases), found)
	if found {
		t.Fail()
	}
}
