package flamego

// Witness search for C12 (run only after a deductive obligation of C12 failed, by ./check C12 --witness, or in the
// thorough tier): named routes are built into URLs through the real router for enumerated value assignments
// (values that contain other binds, braces, slashes, empty values, unknown names) with and without the optional
// segment, and compared with a direct reading of the statement computed from the parsed route; dispatched requests
// are rebuilt from their own parameters through Context.URLPath; naming errors must panic.

import (
	"encoding/json"
	"fmt"
	"io"
	"net/http/httptest"
	"os"
	"strings"
	"testing"

	"github.com/flamego/flamego/internal/route"
)

var c12Routes = []string{
	"/plain", "/u/{name}", "/swap/{a}/{b}", "/f/{y: /[0-9]{4}/}-{m: /[0-9]{2}/}", "/q/{a: /x+/, b: /y+/}-{c}", "/s/{p: **}", "/t/{p: **, capture: 2}/end",
	"/all/{**}", "/o/?{opt}", "/o2/{k}/?{opt: /[a-z]+/}", "/lit(eral).{x}", "/?root", "/m/{a}{b: /[0-9]+/}",
}

// the URL skeleton of the statement: literals verbatim, {bind} per bind, annotations dropped
func c12Skeleton(text string, withOptional bool) (tokens []string, binds []string, hasOptional bool) {
	p, _ := route.NewParser()
	ast, err := p.Parse(text)
	if err != nil {
		return nil, nil, false
	}
	for _, s := range ast.Segments {
		if s.Optional {
			hasOptional = true
			if !withOptional {
				break
			}
		}
		tokens = append(tokens, "L/")
		for _, e := range s.Elements {
			switch {
			case e.Ident != nil:
				tokens = append(tokens, "L"+*e.Ident)
			case e.BindIdent != nil:
				tokens = append(tokens, "B"+*e.BindIdent)
				binds = append(binds, *e.BindIdent)
			case e.BindParameters != nil:
				for i, prm := range e.BindParameters.Parameters {
					if i > 0 && prm.Value.Regex == nil {
						continue // an annotation such as "capture: 2"
					}
					tokens = append(tokens, "B"+prm.Ident)
					binds = append(binds, prm.Ident)
				}
			}
		}
	}
	return tokens, binds, hasOptional
}

func c12Reference(text string, vals map[string]string, withOptional bool) string {
	tokens, _, _ := c12Skeleton(text, withOptional)
	var sb strings.Builder
	for _, t := range tokens {
		if t[0] == 'L' {
			sb.WriteString(t[1:])
		} else if v, ok := vals[t[1:]]; ok {
			sb.WriteString(v)
		} else {
			sb.WriteString("{" + t[1:] + "}")
		}
	}
	return sb.String()
}

type c12Input struct {
	Route        string
	Pairs        []string
	WithOptional bool
}

func c12Check(in c12Input) string {
	f := NewWithLogger(io.Discard)
	f.Get(in.Route, func() {}).Name("target")
	f.Get("/other/{zz}", func() {}).Name("other")
	vals := map[string]string{}
	for i := 1; i < len(in.Pairs); i += 2 {
		vals[in.Pairs[i-1]] = in.Pairs[i]
	}
	pairs := append([]string{}, in.Pairs...)
	if in.WithOptional {
		pairs = append(pairs, "withOptional", "true")
	}
	want := c12Reference(in.Route, vals, in.WithOptional)
	got, panicked := "", ""
	func() {
		defer func() {
			if r := recover(); r != nil {
				panicked = fmt.Sprint(r)
			}
		}()
		got = f.URLPath("target", pairs...)
	}()
	if panicked != "" {
		return "panic: " + panicked
	}
	if got != want {
		return fmt.Sprintf("URLPath(%q, %v, withOptional=%v) = %q, the statement gives %q", in.Route, in.Pairs, in.WithOptional, got, want)
	}
	return ""
}

func c12Naming() string {
	mustPanic := func(what string, fn func()) string {
		p := false
		func() {
			defer func() {
				if recover() != nil {
					p = true
				}
			}()
			fn()
		}()
		if !p {
			return what + " did not panic"
		}
		return ""
	}
	f := NewWithLogger(io.Discard)
	f.Get("/a/{x}", func() {}).Name("a")
	for _, c := range []struct {
		what string
		fn   func()
	}{
		{"naming a route with the empty name", func() { f.Get("/b", func() {}).Name("") }},
		{"naming a second route \"a\"", func() { f.Get("/c", func() {}).Name("a") }},
		{"naming a Combo route with a used name", func() { f.Combo("/d").Get(func() {}).Name("a") }},
		{"URLPath of an unknown name", func() { f.URLPath("nope") }},
		{"URLPath of the empty name", func() { f.URLPath("") }},
	} {
		if w := mustPanic(c.what, c.fn); w != "" {
			return w
		}
	}
	if got := f.URLPath("a", "x", "1"); got != "/a/1" {
		return "a failed naming attempt disturbed the named route \"a\": " + got
	}
	return ""
}

// a dispatched request rebuilt from its own parameters through Context.URLPath reproduces its path
func c12RoundTrip(routeText, path string) string {
	f := NewWithLogger(io.Discard)
	got, ran := "", false
	_, binds, hasOpt := c12Skeleton(routeText, true)
	f.Get(routeText, func(c Context) {
		ran = true
		var pairs []string
		for _, b := range binds {
			if v, ok := c.Params()[b]; ok {
				pairs = append(pairs, b, v)
			}
		}
		short := c12Reference(routeText, c.Params(), false)
		if hasOpt && short != path {
			pairs = append(pairs, "withOptional", "true")
		}
		got = c.URLPath("rt", pairs...)
	}).Name("rt")
	f.ServeHTTP(httptest.NewRecorder(), httptest.NewRequest("GET", path, nil))
	if ran && got != path {
		return fmt.Sprintf("route %q dispatched for %q rebuilds %q from the request's own parameters", routeText, path, got)
	}
	return ""
}

func TestVerifReplayC12(t *testing.T) {
	if in := os.Getenv("VERIF_REPLAY_INPUT"); in != "" {
		var x c12Input
		json.Unmarshal([]byte(in), &x)
		if what := c12Check(x); what != "" {
			b, _ := json.Marshal(x)
			fmt.Printf("REPLAY-FAIL %s\n", b)
			t.Fatal(what)
		}
		return
	}
	values := []string{"v", "", "{a}", "{b}", "{name}", "x/y", "{", "}", "{c}{opt}", "%7Bp%7D"}
	count, found := 0, false
	report := func(in c12Input, what string) {
		b, _ := json.Marshal(in)
		fmt.Printf("REPLAY-FAIL %s\n", b)
		fmt.Printf("REPLAY-WHAT %s\n", what)
		found = true
	}
	if w := c12Naming(); w != "" {
		report(c12Input{Route: "naming"}, w)
	}
search:
	for _, r := range c12Routes {
		if found {
			break
		}
		_, binds, _ := c12Skeleton(r, true)
		names := append(append([]string{}, binds...), "unknown")
		// every assignment of a value (or no value) to each name, from a small value set
		choice := make([]int, len(names))
		for {
			var pairs []string
			for i, n := range names {
				if choice[i] > 0 {
					pairs = append(pairs, n, values[choice[i]-1])
				}
			}
			for _, wo := range []bool{false, true} {
				in := c12Input{Route: r, Pairs: pairs, WithOptional: wo}
				count++
				if what := c12Check(in); what != "" {
					report(in, what)
					break search
				}
			}
			k := 0
			for k < len(choice) {
				choice[k]++
				if choice[k] <= len(values) {
					break
				}
				choice[k] = 0
				k++
			}
			if k == len(choice) {
				break
			}
		}
	}
	if !found {
		for _, rt := range [][2]string{{"/u/{name}", "/u/joe"}, {"/swap/{a}/{b}", "/swap/1/2"}, {"/f/{y: /[0-9]{4}/}-{m: /[0-9]{2}/}", "/f/2024-05"}, {"/q/{a: /x+/, b: /y+/}-{c}", "/q/xxyy-z"},
			{"/s/{p: **}", "/s/a/b/c"}, {"/t/{p: **, capture: 2}/end", "/t/a/b/end"}, {"/all/{**}", "/all/x/y"}, {"/o/?{opt}", "/o"}, {"/o/?{opt}", "/o/v"},
			{"/o2/{k}/?{opt: /[a-z]+/}", "/o2/k"}, {"/o2/{k}/?{opt: /[a-z]+/}", "/o2/k/abc"}, {"/lit(eral).{x}", "/lit(eral).z"}, {"/m/{a}{b: /[0-9]+/}", "/m/ab12"}} {
			count++
			if what := c12RoundTrip(rt[0], rt[1]); what != "" {
				report(c12Input{Route: rt[0], Pairs: []string{"path", rt[1]}}, what)
				break
			}
		}
	}
	fmt.Printf("REPLAY-STATS %d URL builds over %d routes, found=%v\n", count, len(c12Routes), found)
	if found {
		t.Fail()
	}
}
