package flamego

// Witness search for C03 (run only after a deductive obligation of C03 failed, or by ./check C03 --witness):
// every chain of five programmed handlers (two application middleware, one group handler, two route handlers,
// the last being the action) is served by the real framework and its enter/exit trace is compared with a
// direct reading of the statement.  Finding nothing proves nothing.

import (
	gocontext "context"
	"encoding/json"
	"fmt"
	"io"
	"net/http"
	"net/http/httptest"
	"os"
	"strings"
	"testing"
)

// behaviours: a string of steps. N = call Next(), W = write a status, C = cancel the request's current context,
// D = replace the request by one with a derived (cancellable) context, a trailing R = return a non-empty string
// (rendered by the return handler, i.e. a write after the body).
var c03Behaviours = []string{"", "N", "W", "NW", "WN", "NN", "R", "D", "C"}

type c03Input struct{ Chain []string }

func c03Reference(chain []string) []string {
	var trace []string
	idx, written, cancelled := 0, false, false
	var run func()
	run = func() {
		for idx < len(chain) {
			if cancelled {
				return
			}
			i := idx
			idx++
			trace = append(trace, fmt.Sprintf(">%d", i))
			for _, st := range chain[i] {
				switch st {
				case 'N':
					run()
				case 'W', 'R':
					written = true
				case 'C':
					cancelled = true
				case 'D': // a derived context is cancelled together with, but not before, its parent
				}
			}
			trace = append(trace, fmt.Sprintf("<%d", i))
			if written {
				return
			}
		}
	}
	run()
	return trace
}

func c03Run(chain []string) (trace []string, panicked string) {
	f := NewWithLogger(io.Discard)
	var cancel gocontext.CancelFunc
	mk := func(i int) Handler {
		b := chain[i]
		body := func(c Context) {
			for _, st := range b {
				switch st {
				case 'N':
					c.Next()
				case 'W':
					c.ResponseWriter().WriteHeader(http.StatusAccepted)
				case 'C':
					cancel()
				case 'D':
					ctx2, cf2 := gocontext.WithCancel(c.Request().Context())
					cancel = cf2 // "the request's current context" is now the derived one
					c.Request().Request = c.Request().WithContext(ctx2)
				}
			}
		}
		if strings.HasSuffix(b, "R") {
			return func(c Context) string {
				trace = append(trace, fmt.Sprintf(">%d", i))
				body(c)
				trace = append(trace, fmt.Sprintf("<%d", i))
				return "x"
			}
		}
		return func(c Context) {
			trace = append(trace, fmt.Sprintf(">%d", i))
			body(c)
			trace = append(trace, fmt.Sprintf("<%d", i))
		}
	}
	f.Use(mk(0), mk(1))
	f.Group("/g", func() {
		f.Get("/x", mk(3), mk(4))
	}, mk(2))
	req := httptest.NewRequest("GET", "/g/x", nil)
	ctx, cf := gocontext.WithCancel(req.Context())
	cancel = cf
	defer cf()
	req = req.WithContext(ctx)
	func() {
		defer func() {
			if r := recover(); r != nil {
				panicked = fmt.Sprint(r)
			}
		}()
		f.ServeHTTP(httptest.NewRecorder(), req)
	}()
	return trace, panicked
}

func c03Check(in c03Input) string {
	if len(in.Chain) != 5 {
		return ""
	}
	want := c03Reference(in.Chain)
	got, p := c03Run(in.Chain)
	if p != "" {
		return "panic: " + p
	}
	if strings.Join(got, " ") != strings.Join(want, " ") {
		return fmt.Sprintf("trace %v, the statement gives %v", got, want)
	}
	return ""
}

func TestVerifReplayC03(t *testing.T) {
	if in := os.Getenv("VERIF_REPLAY_INPUT"); in != "" {
		var x c03Input
		json.Unmarshal([]byte(in), &x)
		if what := c03Check(x); what != "" {
			b, _ := json.Marshal(x)
			fmt.Printf("REPLAY-FAIL %s\n", b)
			t.Fatal(what)
		}
		return
	}
	count := 0
	chain := make([]string, 5)
	var rec func(k int) bool
	rec = func(k int) bool {
		if k == 5 {
			count++
			in := c03Input{Chain: append([]string{}, chain...)}
			if what := c03Check(in); what != "" {
				b, _ := json.Marshal(in)
				fmt.Printf("REPLAY-FAIL %s\n", b)
				fmt.Printf("REPLAY-WHAT %s\n", what)
				return true
			}
			return false
		}
		for _, b := range c03Behaviours {
			chain[k] = b
			if rec(k + 1) {
				return true
			}
		}
		return false
	}
	found := rec(0)
	fmt.Printf("REPLAY-STATS %d handler programs (5 slots x %d behaviours), found=%v\n", count, len(c03Behaviours), found)
	if found {
		t.Fail()
	}
}
