package inject

// Witness search for C04 (run only after a deductive obligation of C04 failed, by ./check C04 --witness, or in the
// thorough tier): every assignment of a set of registrations (Map / MapTo / Set over concrete, pointer, named,
// channel and interface types, with re-registration) to up to three nested scopes is built on real injectors, and
// handlers of several signatures - plain and fast-invoker wrapped - are invoked in the innermost scope; the
// arguments they receive, the error and the results are compared with a direct reading of the statement.

import (
	"encoding/json"
	"fmt"
	"os"
	"reflect"
	"strings"
	"testing"
)

type c04A struct{ id string }
type c04S string
type c04I1 interface{ Who() string }
type c04I2 interface {
	Who() string
	Extra()
}

func (a *c04A) Who() string { return "A:" + a.id }
func (a *c04A) Extra()      {}
func (s c04S) Who() string  { return "S:" + string(s) }

var (
	c04TA  = reflect.TypeOf((*c04A)(nil))
	c04TS  = reflect.TypeOf(c04S(""))
	c04TC  = reflect.TypeOf((chan int)(nil))
	c04TI1 = reflect.TypeOf((*c04I1)(nil)).Elem()
	c04TI2 = reflect.TypeOf((*c04I2)(nil)).Elem()
	c04TN  = reflect.TypeOf(0)
)

// the registration operations of the universe; each yields (key type, printable identity of the value)
type c04Reg struct {
	name  string
	key   reflect.Type
	ident string
	apply func(Injector)
}

func c04Regs(scope int) []c04Reg {
	tag := fmt.Sprintf("%d", scope)
	a1, a2, a3 := &c04A{"a1-" + tag}, &c04A{"a2-" + tag}, &c04A{"a3-" + tag}
	s1, s2 := c04S("s1-"+tag), c04S("s2-"+tag)
	ch := make(chan int, scope+1)
	return []c04Reg{
		{"Map(*A a1)", c04TA, "A:a1-" + tag, func(i Injector) { i.Map(a1) }},
		{"Map(*A a2)", c04TA, "A:a2-" + tag, func(i Injector) { i.Map(a2) }}, // re-registration of the same type
		{"Map(S s1)", c04TS, "S:s1-" + tag, func(i Injector) { i.Map(s1) }},
		{"MapTo(S s2, I1)", c04TI1, "S:s2-" + tag, func(i Injector) { i.MapTo(s2, (*c04I1)(nil)) }},
		{"MapTo(*A a3, I2)", c04TI2, "A:a3-" + tag, func(i Injector) { i.MapTo(a3, (*c04I2)(nil)) }},
		{"Set(chan)", c04TC, fmt.Sprintf("chan%d", scope+1), func(i Injector) { i.Set(c04TC, reflect.ValueOf(ch)) }},
	}
}

func c04Ident(v interface{}) string {
	switch x := v.(type) {
	case *c04A:
		return x.Who()
	case c04S:
		return x.Who()
	case c04I1:
		return x.Who()
	case chan int:
		return fmt.Sprintf("chan%d", cap(x))
	}
	return fmt.Sprintf("%v", v)
}

// c04Resolve is the lookup rule of the statement: the set of acceptable values for type t ("" = unresolved)
func c04Resolve(scopes [][]c04Reg, t reflect.Type) []string {
	for s := len(scopes) - 1; s >= 0; s-- {
		// exact registration in this scope: the latest one wins
		exact := ""
		for _, r := range scopes[s] {
			if r.key == t {
				exact = r.ident
			}
		}
		if exact != "" {
			return []string{exact}
		}
		if t.Kind() == reflect.Interface {
			latest := map[reflect.Type]string{}
			for _, r := range scopes[s] {
				latest[r.key] = r.ident
			}
			var cands []string
			for k, id := range latest {
				if k.Implements(t) {
					cands = append(cands, id)
				}
			}
			if len(cands) > 0 {
				return cands
			}
		}
	}
	return nil
}

type c04Fast func(a *c04A, i c04I1) (int, string)

func (f c04Fast) Invoke(args []interface{}) ([]reflect.Value, error) {
	n, s := f(args[0].(*c04A), args[1].(c04I1))
	return []reflect.Value{reflect.ValueOf(n), reflect.ValueOf(s)}, nil
}

type c04Input struct {
	Masks   []int // per scope, outermost first: bit k = registration k applied (in order)
	Handler int
}

func c04Check(in c04Input) string {
	var injs []Injector
	var scopes [][]c04Reg
	for s, mask := range in.Masks {
		inj := New()
		if s > 0 {
			inj.SetParent(injs[s-1])
		}
		var applied []c04Reg
		for k, r := range c04Regs(s) {
			if mask&(1<<k) != 0 {
				r.apply(inj)
				applied = append(applied, r)
			}
		}
		injs = append(injs, inj)
		scopes = append(scopes, applied)
	}
	inner := injs[len(injs)-1]
	var got []string
	calls := 0
	rec := func(vs ...interface{}) {
		calls++
		for _, v := range vs {
			got = append(got, c04Ident(v))
		}
	}
	var handler interface{}
	var argTypes []reflect.Type
	switch in.Handler {
	case 0:
		handler, argTypes = func(a *c04A) (int, string) { rec(a); return 7, "r" }, []reflect.Type{c04TA}
	case 1:
		handler, argTypes = func(i c04I1) (int, string) { rec(i); return 7, "r" }, []reflect.Type{c04TI1}
	case 2:
		handler, argTypes = func(i c04I2, s c04S) (int, string) { rec(i, s); return 7, "r" }, []reflect.Type{c04TI2, c04TS}
	case 3:
		handler, argTypes = func(c chan int, a *c04A, i c04I1) (int, string) { rec(c, a, i); return 7, "r" }, []reflect.Type{c04TC, c04TA, c04TI1}
	case 4:
		handler, argTypes = c04Fast(func(a *c04A, i c04I1) (int, string) { rec(a, i); return 7, "r" }), []reflect.Type{c04TA, c04TI1}
	case 5:
		handler, argTypes = func(n int, a *c04A) (int, string) { rec(n, a); return 7, "r" }, []reflect.Type{c04TN, c04TA}
	case 6:
		handler, argTypes = func() (int, string) { rec(); return 7, "r" }, nil
	}
	run := func(phase string) string {
		got, calls = nil, 0
		var want [][]string
		missing := ""
		for _, t := range argTypes {
			c := c04Resolve(scopes, t)
			if c == nil && missing == "" {
				missing = t.String()
			}
			want = append(want, c)
		}
		var vals []reflect.Value
		var err error
		panicked := ""
		func() {
			defer func() {
				if r := recover(); r != nil {
					panicked = fmt.Sprint(r)
				}
			}()
			vals, err = inner.Invoke(handler)
		}()
		desc := fmt.Sprintf("scopes %v handler #%d%s", in.Masks, in.Handler, phase)
		if panicked != "" {
			return desc + ": panic: " + panicked
		}
		if missing != "" {
			if err == nil || calls != 0 {
				return fmt.Sprintf("%s: %s cannot be resolved, want an error and the body not run; got err=%v, body ran %d time(s)", desc, missing, err, calls)
			}
			if !strings.Contains(err.Error(), missing) {
				return fmt.Sprintf("%s: the error %q does not name the type %s", desc, err, missing)
			}
			return ""
		}
		if err != nil {
			return fmt.Sprintf("%s: every parameter is resolvable, got error %v", desc, err)
		}
		if calls != 1 {
			return fmt.Sprintf("%s: the body ran %d times", desc, calls)
		}
		for i, cands := range want {
			ok := false
			for _, c := range cands {
				if got[i] == c {
					ok = true
				}
			}
			if !ok {
				return fmt.Sprintf("%s: parameter %d (%v) received %q, the lookup rule allows %v", desc, i, argTypes[i], got[i], cands)
			}
		}
		if len(vals) != 2 || vals[0].Interface() != 7 || vals[1].Interface() != "r" {
			return fmt.Sprintf("%s: results %v did not come back unchanged", desc, vals)
		}
		return ""
	}
	if w := run(""); w != "" {
		return w
	}
	// a later registration for the same type in the same scope replaces the earlier - also after lookups have happened
	last := len(scopes) - 1
	for _, r := range []c04Reg{
		{"Map(*A new)", c04TA, "A:new", func(i Injector) { i.Map(&c04A{"new"}) }},
		{"Map(S new)", c04TS, "S:new", func(i Injector) { i.Map(c04S("new")) }},
	} {
		r.apply(inner)
		scopes[last] = append(scopes[last], r)
	}
	return run(" after re-registering *A and S in the innermost scope")
}

func TestVerifReplayC04(t *testing.T) {
	if in := os.Getenv("VERIF_REPLAY_INPUT"); in != "" {
		var x c04Input
		json.Unmarshal([]byte(in), &x)
		if what := c04Check(x); what != "" {
			b, _ := json.Marshal(x)
			fmt.Printf("REPLAY-FAIL %s\n", b)
			t.Fatal(what)
		}
		return
	}
	count, found := 0, false
	nreg := len(c04Regs(0))
	try := func(masks []int) bool {
		for h := 0; h <= 6; h++ {
			in := c04Input{Masks: masks, Handler: h}
			count++
			if what := c04Check(in); what != "" {
				b, _ := json.Marshal(in)
				fmt.Printf("REPLAY-FAIL %s\n", b)
				fmt.Printf("REPLAY-WHAT %s\n", what)
				return true
			}
		}
		return false
	}
search:
	for depth := 1; depth <= 3; depth++ {
		masks := make([]int, depth)
		for {
			if depth < 3 || (masks[0]+masks[1]*3+masks[2]*5)%7 == 0 { // a seventh of the three-scope assignments
				if try(append([]int{}, masks...)) {
					found = true
					break search
				}
			}
			k := 0
			for k < depth {
				masks[k]++
				if masks[k] < 1<<nreg {
					break
				}
				masks[k] = 0
				k++
			}
			if k == depth {
				break
			}
		}
	}
	fmt.Printf("REPLAY-STATS %d invocations over assignments of %d registrations to 1..3 scopes and 7 handler signatures, found=%v\n", count, nreg, found)
	if found {
		t.Fail()
	}
}
