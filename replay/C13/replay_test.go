package flamego

// Witness search for C13 (run only after a deductive obligation of C13 failed, or by ./check C13 --witness):
// enumerates operation sequences on the real response writer over a spy http.ResponseWriter and compares
// every observable with the property statement.  Finding nothing proves nothing.

import (
	"encoding/json"
	"fmt"
	"net/http"
	"os"
	"strings"
	"testing"
)

type c13Spy struct {
	h      http.Header
	events []string // "H<code>" status line, "B<n>" body bytes accepted, "F" flush
	short  bool     // accept only half of every write
}

func (s *c13Spy) Header() http.Header { return s.h }
func (s *c13Spy) WriteHeader(c int)   { s.events = append(s.events, fmt.Sprintf("H%d", c)) }
func (s *c13Spy) Write(b []byte) (int, error) {
	n := len(b)
	if s.short {
		n = len(b) / 2
	}
	s.events = append(s.events, fmt.Sprintf("B%d", n))
	return n, nil
}
func (s *c13Spy) Flush() { s.events = append(s.events, "F") }

type c13Input struct {
	Method string
	Short  bool
	Ops    []string // "H201" "H404" "Wab" "W" "F" "B" (register a hook) "Q" (query Status/Size/Written)
}

func c13Check(in c13Input) string {
	spy := &c13Spy{h: http.Header{}, short: in.Short}
	w := NewResponseWriter(in.Method, spy)
	var hookLog []string
	nHooks := 0
	// model from the statement
	sent, status, size := false, 0, 0
	wantHookOrder := []string{}
	for step, op := range in.Ops {
		switch {
		case op[0] == 'H':
			code := 0
			fmt.Sscanf(op[1:], "%d", &code)
			w.WriteHeader(code)
			if !sent {
				sent, status = true, code
			}
		case op[0] == 'W':
			body := op[1:]
			n, _ := w.Write([]byte(body))
			if !sent {
				sent, status = true, 200
			}
			want := len(body)
			if in.Short {
				want = len(body) / 2
			}
			if in.Method == http.MethodHead {
				want = 0
			}
			if n != want {
				return fmt.Sprintf("step %d: Write(%q) returned %d, want %d", step, body, n, want)
			}
			size += want
		case op == "F":
			w.Flush()
			if !sent {
				sent, status = true, 200
			}
		case op == "B":
			if !sent {
				id := fmt.Sprintf("h%d", nHooks)
				nHooks++
				wantHookOrder = append([]string{id}, wantHookOrder...)
				w.Before(func(rw ResponseWriter) {
					// a hook runs before the status reaches the underlying writer
					hookLog = append(hookLog, fmt.Sprintf("%s@%d", id, len(spy.events)))
				})
			} else {
				w.Before(func(ResponseWriter) { hookLog = append(hookLog, "late") })
			}
		}
		if w.Status() != status || w.Written() != sent || w.Size() != size {
			return fmt.Sprintf("after step %d (%s): Status/Written/Size = %d/%v/%d, the statement gives %d/%v/%d", step, op, w.Status(), w.Written(), w.Size(), status, sent, size)
		}
	}
	nStatus, bodySeen := 0, false
	for _, e := range spy.events {
		switch e[0] {
		case 'H':
			nStatus++
			if bodySeen {
				return "the underlying writer received a status line after body bytes: " + strings.Join(spy.events, " ")
			}
			if nStatus == 1 && e != fmt.Sprintf("H%d", status) {
				return fmt.Sprintf("the underlying writer received %s, reported status is %d", e, status)
			}
		case 'B':
			bodySeen = true
			if nStatus == 0 {
				return "body bytes reached the underlying writer before any status line: " + strings.Join(spy.events, " ")
			}
			if in.Method == http.MethodHead {
				return "body bytes forwarded for a HEAD request: " + strings.Join(spy.events, " ")
			}
		case 'F':
			if nStatus == 0 {
				return "flush reached the underlying writer before any status line"
			}
		}
	}
	if nStatus > 1 {
		return "the underlying writer received more than one status line: " + strings.Join(spy.events, " ")
	}
	if sent != (nStatus == 1) {
		return fmt.Sprintf("sent=%v but %d status lines reached the underlying writer", sent, nStatus)
	}
	if sent {
		var got []string
		for _, h := range hookLog {
			parts := strings.SplitN(h, "@", 2)
			if len(parts) == 2 {
				got = append(got, parts[0])
				if parts[1] != "0" {
					return "hook " + parts[0] + " ran after the underlying writer had already received something"
				}
			} else {
				return "a hook registered after the first write ran"
			}
		}
		if strings.Join(got, ",") != strings.Join(wantHookOrder, ",") {
			return fmt.Sprintf("hooks ran %v, want each once in reverse registration order %v", got, wantHookOrder)
		}
	} else if len(hookLog) > 0 {
		return "hooks ran although nothing was written"
	}
	return ""
}

func TestVerifReplayC13(t *testing.T) {
	if in := os.Getenv("VERIF_REPLAY_INPUT"); in != "" {
		var x c13Input
		json.Unmarshal([]byte(in), &x)
		if what := c13Check(x); what != "" {
			b, _ := json.Marshal(x)
			fmt.Printf("REPLAY-FAIL %s\n", b)
			t.Fatal(what)
		}
		return
	}
	alphabet := []string{"H201", "H404", "Wabcd", "W", "F", "B"}
	count := 0
	var rec func(prefix []string, k int) bool
	rec = func(prefix []string, k int) bool {
		if k > 0 {
			for _, o := range alphabet {
				if rec(append(prefix, o), k-1) {
					return true
				}
			}
			return false
		}
		for _, m := range []string{"GET", "HEAD"} {
			for _, short := range []bool{false, true} {
				in := c13Input{Method: m, Short: short, Ops: append([]string{}, prefix...)}
				count++
				if what := c13Check(in); what != "" {
					b, _ := json.Marshal(in)
					fmt.Printf("REPLAY-FAIL %s\n", b)
					fmt.Printf("REPLAY-WHAT %s\n", what)
					return true
				}
			}
		}
		return false
	}
	found := false
	for l := 0; l <= 5 && !found; l++ { // shortest sequences first
		found = rec(nil, l)
	}
	fmt.Printf("REPLAY-STATS %d operation sequences up to length 5, found=%v\n", count, found)
	if found {
		t.Fail()
	}
}
