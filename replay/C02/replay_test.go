package route

// Witness search for C02 (run only after a deductive obligation of C02 failed, by ./check C02 --witness, or in
// the thorough tier): for route sets from a pool with several binds per segment, user expressions with groups,
// literals with metacharacters, placeholders, match-alls and optional segments, every dispatched request's
// parameters are compared with the captures of the reference reading (ref_helper_test.go), percent-decoded once,
// and substituted back through the real URLPath.

import (
	"encoding/json"
	"fmt"
	"net/http"
	"os"
	"strings"
	"testing"
)

var c02Pool = []string{
	"/u/{name}", "/u/{name}/posts/{id: /[0-9]+/}", "/f/{y: /[0-9]{4}/}-{m: /[0-9]{2}/}", "/g/{a: /(x)(y)/}-{b: /z+/}",
	"/v{maj: /[0-9]+/}.{min: /[0-9]+/}", "/a(b){id}", "/s/{p: **}", "/s/{p: **}/end", "/t/{p: **, capture: 2}/end", "/o/?{opt}",
	"/o2/{k}/?{opt: /[a-z]+/}", "/w/{a: /(a|b)+/}/{c}", "/r/{ver: /v[0-9]+(\\.[0-9]+(\\.[0-9]+)?)?/}-{os: /linux|darwin/}", "/q/{a: /x+/, b: /y+/}-{c}",
	"/{**}", "/dot.txt", "/own/{owner}/{paths: **}/blob/{owner}", "/rp/{id: /[0-9]+/}/commits/{id}", "/e/{x}.{ext: /(txt|md)?/}",
}

func c02Paths() []string {
	return []string{
		"/u/joe", "/u/jo%65", "/u/%zz", "/u/%2541", "/u/", "/u/joe/posts/12", "/u/joe/posts/x", "/u/a%2Fb/posts/7", "/f/2024-05", "/f/2024-5",
		"/g/xy-z", "/g/xy-zz", "/v1.2", "/v10.0", "/v1", "/a(b)7", "/ab7", "/a(b)", "/s/x", "/s/x/y/z", "/s/x/end", "/s/x/y/end", "/s/end/end",
		"/t/1/end", "/t/1/2/end", "/t/1/2/3/end", "/o", "/o/", "/o/k", "/o2/k", "/o2/k/abc", "/o2/k/ABC", "/w/ab/c", "/w/abc/c", "/w/a/",
		"/r/v1.2.3-linux", "/r/v1-darwin", "/r/v1.2-bsd", "/q/xxyy-c", "/q/xy-", "/dot.txt", "/dotxtxt", "/e/f.txt", "/e/f.", "/e/a.b.md",
		"//u/joe", "/u/joe/", "/zz/top", "/s/%2F/end", "/e/%41.md",
		"/own/alice/src/lib/blob/bob", "/rp/12/commits/ab", "/e/%2541.md", "/f/2024-%30%35", "/w/%61b/c", "/u/joe/posts/%31", "/v%31.2", "/q/x%78yy-c", "/e/%25.txt",
	}
}

var c02Compared int

type c02Input struct {
	Routes []string
	Path   string
}

func c02Check(in c02Input) (string, bool) {
	set := c01Build(in.Routes)
	if set == nil {
		return "", true
	}
	var leaf Leaf
	var params Params
	var ok bool
	panicked := ""
	func() {
		defer func() {
			if r := recover(); r != nil {
				panicked = fmt.Sprint(r)
			}
		}()
		leaf, params, ok = set.tree.Match(in.Path, http.Header{})
	}()
	if panicked != "" {
		return "panic: " + panicked, false
	}
	want := refDispatch(set.refs, in.Path, nil)
	if want == nil || !ok || leaf.Route() != want.route.text {
		return "", false // which route is chosen is C01's subject
	}
	c02Compared++
	for bind, raw := range want.raw {
		got, has := params[bind]
		if !has {
			return fmt.Sprintf("route %q: bind %q missing from the parameters %v", want.route.text, bind, params), false
		}
		if got != refDecode(raw) {
			return fmt.Sprintf("route %q: bind %q = %q, the pattern captured %q (decoded once: %q)", want.route.text, bind, got, raw, refDecode(raw)), false
		}
	}
	// substituting the values back reproduces the path (checked on paths without escapes, where decoding is the identity)
	if !strings.Contains(in.Path, "%") {
		vals := map[string]string{}
		for bind := range want.raw {
			vals[bind] = params[bind]
		}
		back := leaf.URLPath(vals, want.long && want.route.optional)
		canonical := "/" + strings.TrimLeft(in.Path, "/")
		if back != canonical {
			return fmt.Sprintf("route %q: URLPath(%v, withOptional=%v) = %q, the request path is %q", want.route.text, vals, want.long && want.route.optional, back, canonical), false
		}
	}
	return "", false
}

func TestVerifReplayC02(t *testing.T) {
	if in := os.Getenv("VERIF_REPLAY_INPUT"); in != "" {
		var x c02Input
		json.Unmarshal([]byte(in), &x)
		if what, _ := c02Check(x); what != "" {
			b, _ := json.Marshal(x)
			fmt.Printf("REPLAY-FAIL %s\n", b)
			t.Fatal(what)
		}
		return
	}
	paths := c02Paths()
	count, sets, found := 0, 0, false
	try := func(routes []string) bool {
		sets++
		for _, p := range paths {
			in := c02Input{Routes: routes, Path: p}
			what, skipped := c02Check(in)
			if skipped {
				return false
			}
			count++
			if what != "" {
				b, _ := json.Marshal(in)
				fmt.Printf("REPLAY-FAIL %s\n", b)
				fmt.Printf("REPLAY-WHAT %s\n", what)
				return true
			}
		}
		return false
	}
search:
	for i := range c02Pool {
		if try([]string{c02Pool[i]}) {
			found = true
			break search
		}
	}
	if !found {
	pairs:
		for i := range c02Pool {
			for j := range c02Pool {
				if i != j && try([]string{c02Pool[i], c02Pool[j]}) {
					found = true
					break pairs
				}
			}
		}
	}
	if !found {
		found = try(c02Pool)
	}
	fmt.Printf("REPLAY-STATS %d route sets (pool of %d: singles, ordered pairs, all), %d requests of which %d were dispatched and had their parameters compared, found=%v\n", sets, len(c02Pool), count, c02Compared, found)
	if found {
		t.Fail()
	}
}
