package flamego

// Witness search for C18 (run only after a deductive obligation of C18 failed, or by ./check C18 --witness):
// every accessor is called through the real framework for present / empty / absent values with zero, one and
// two defaults and compared with the single rule of the statement; cookies written with SetCookie are carried
// back by a real cookie-aware round trip.  Finding nothing proves nothing.

import (
	"encoding/json"
	"fmt"
	"io"
	"math"
	"net/http"
	"net/http/httptest"
	"net/url"
	"os"
	"reflect"
	"strconv"
	"strings"
	"testing"
)

type c18Input struct {
	Kind  string // "query" | "param" | "cookie"
	Value string
	State string // "present" | "empty" | "absent"
	NDef  int
}

func c18Query(in c18Input) string {
	f := NewWithLogger(io.Discard)
	var got []interface{}
	panicked := ""
	defS := []string{"dflt", "second"}[:in.NDef]
	defB := []bool{true, false}[:in.NDef]
	defI := []int{41, 42}[:in.NDef]
	defI64 := []int64{-43, 44}[:in.NDef]
	defF := []float64{3.25, 9}[:in.NDef]
	defSS := [][]string{{"d1", "d2"}, {"x"}}[:in.NDef]
	f.Get("/", func(c Context) {
		defer func() {
			if r := recover(); r != nil {
				panicked = fmt.Sprint(r)
			}
		}()
		got = []interface{}{
			c.Query("k", defS...), c.QueryTrim("k", defS...), c.QueryUnescape("k", defS...), c.QueryBool("k", defB...),
			c.QueryInt("k", defI...), c.QueryInt64("k", defI64...), c.QueryFloat64("k", defF...), c.QueryStrings("k", defSS...),
		}
	})
	target := "/"
	raw := ""
	switch in.State {
	case "present":
		raw = in.Value
		target = "/?other=1&k=" + url.QueryEscape(in.Value)
	case "empty":
		target = "/?k=&other=1"
	case "absent":
		target = "/?other=1"
	}
	f.ServeHTTP(httptest.NewRecorder(), httptest.NewRequest("GET", target, nil))
	if panicked != "" {
		return "panic: " + panicked
	}
	if got == nil {
		return "handler did not run for " + target
	}
	// the rule of the statement
	present := raw != ""
	var want []interface{}
	if present {
		un, _ := url.QueryUnescape(raw)
		b, _ := strconv.ParseBool(raw)
		i, _ := strconv.ParseInt(raw, 10, 0)
		i64, _ := strconv.ParseInt(raw, 10, 64)
		fl, _ := strconv.ParseFloat(raw, 64)
		want = []interface{}{raw, strings.TrimSpace(raw), un, b, int(i), i64, fl, []string{raw}}
	} else {
		want = []interface{}{"", "", "", false, 0, int64(0), float64(0), []string{}}
		if in.NDef > 0 {
			un, _ := url.QueryUnescape(defS[0])
			want = []interface{}{defS[0], strings.TrimSpace(defS[0]), un, defB[0], defI[0], defI64[0], defF[0], defSS[0]}
		}
		if in.State == "empty" {
			want[7] = []string{""} // the key is present: QueryStrings returns the list of its values
		}
	}
	names := []string{"Query", "QueryTrim", "QueryUnescape", "QueryBool", "QueryInt", "QueryInt64", "QueryFloat64", "QueryStrings"}
	for i := range want {
		if gf, ok := got[i].(float64); ok && math.IsNaN(gf) && math.IsNaN(want[i].(float64)) {
			continue
		}
		if !reflect.DeepEqual(got[i], want[i]) {
			return fmt.Sprintf("%s(%q, %d defaults) with value %s %q = %#v, the rule gives %#v", names[i], "k", in.NDef, in.State, raw, got[i], want[i])
		}
	}
	return ""
}

func c18Param(in c18Input) string {
	f := NewWithLogger(io.Discard)
	var got []interface{}
	panicked := ""
	f.Get("/p/{v}", func(c Context) {
		defer func() {
			if r := recover(); r != nil {
				panicked = fmt.Sprint(r)
			}
		}()
		got = []interface{}{c.Param("v"), c.ParamInt("v"), c.ParamInt64("v"), c.Param("missing"), c.ParamInt("missing"), c.ParamInt64("missing"), c.Params()["v"]}
	})
	req := httptest.NewRequest("GET", "/", nil)
	req.URL.Path = "/p/" + url.PathEscape(in.Value)
	f.ServeHTTP(httptest.NewRecorder(), req)
	if panicked != "" {
		return "panic: " + panicked
	}
	if got == nil {
		return "" // the value does not form a segment (e.g. contains a slash): not an instance of the route
	}
	i, _ := strconv.Atoi(in.Value)
	i64, _ := strconv.ParseInt(in.Value, 10, 64)
	want := []interface{}{in.Value, i, i64, "", 0, int64(0), in.Value}
	for k := range want {
		if !reflect.DeepEqual(got[k], want[k]) {
			return fmt.Sprintf("param accessor #%d with value %q = %#v, the rule gives %#v", k, in.Value, got[k], want[k])
		}
	}
	return ""
}

func c18Cookie(in c18Input) string {
	f := NewWithLogger(io.Discard)
	f.Get("/set", func(c Context) { c.SetCookie(http.Cookie{Name: "n", Value: in.Value, Path: "/"}) })
	var got, missing string
	ran := false
	f.Get("/get", func(c Context) { ran = true; got = c.Cookie("n"); missing = c.Cookie("absent") })
	rec := httptest.NewRecorder()
	f.ServeHTTP(rec, httptest.NewRequest("GET", "/set", nil))
	resp := rec.Result()
	cookies := resp.Cookies()
	if len(rec.Header().Values("Set-Cookie")) != 1 {
		return fmt.Sprintf("SetCookie added %d Set-Cookie headers", len(rec.Header().Values("Set-Cookie")))
	}
	req := httptest.NewRequest("GET", "/get", nil)
	if len(cookies) == 1 {
		req.AddCookie(cookies[0])
	} else {
		// a client that cannot parse the header sends nothing back
		return fmt.Sprintf("the Set-Cookie header %q for value %q does not parse as one cookie", rec.Header().Get("Set-Cookie"), in.Value)
	}
	f.ServeHTTP(httptest.NewRecorder(), req)
	if !ran {
		return "handler did not run"
	}
	if got != in.Value {
		return fmt.Sprintf("cookie value %q was read back as %q (header %q)", in.Value, got, rec.Header().Get("Set-Cookie"))
	}
	if missing != "" {
		return fmt.Sprintf("absent cookie read as %q", missing)
	}
	return ""
}

func c18Check(in c18Input) string {
	switch in.Kind {
	case "query":
		return c18Query(in)
	case "param":
		return c18Param(in)
	case "cookie":
		return c18Cookie(in)
	}
	return ""
}

func TestVerifReplayC18(t *testing.T) {
	if in := os.Getenv("VERIF_REPLAY_INPUT"); in != "" {
		var x c18Input
		json.Unmarshal([]byte(in), &x)
		if what := c18Check(x); what != "" {
			b, _ := json.Marshal(x)
			fmt.Printf("REPLAY-FAIL %s\n", b)
			t.Fatal(what)
		}
		return
	}
	values := []string{"Go", "12", "-7", "+5", "1e3", "3.14", "true", "T", "0", "abc", " 12 ", "  ", "%41", "%zz", "a+b", "a b", "99999999999999999999", "-99999999999999999999", "0x10", "1_000", "NaN", "Inf", "中国", "a&b=c", "\x00"}
	var inputs []c18Input
	for _, nd := range []int{0, 1, 2} {
		for _, st := range []string{"absent", "empty"} {
			inputs = append(inputs, c18Input{Kind: "query", State: st, NDef: nd})
		}
		for _, v := range values {
			inputs = append(inputs, c18Input{Kind: "query", State: "present", Value: v, NDef: nd})
		}
	}
	for _, v := range values {
		inputs = append(inputs, c18Input{Kind: "param", Value: v})
	}
	for b := 0; b < 256; b++ {
		inputs = append(inputs, c18Input{Kind: "cookie", Value: string([]byte{byte(b)})})
		inputs = append(inputs, c18Input{Kind: "cookie", Value: "a" + string([]byte{byte(b)}) + "z"})
	}
	for _, v := range append(values, "", "1+1=2", "\"quoted\"", "semi;colon,comma", strings.Repeat("%+ ", 20)) {
		inputs = append(inputs, c18Input{Kind: "cookie", Value: v})
	}
	found := false
	for _, in := range inputs {
		if what := c18Check(in); what != "" {
			b, _ := json.Marshal(in)
			fmt.Printf("REPLAY-FAIL %s\n", b)
			fmt.Printf("REPLAY-WHAT %s\n", what)
			found = true
			break
		}
	}
	fmt.Printf("REPLAY-STATS %d accessor/cookie inputs, found=%v\n", len(inputs), found)
	if found {
		t.Fail()
	}
}
