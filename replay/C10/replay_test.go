package flamego

// Witness search for C10 (run only after a deductive obligation of C10 failed, by ./check C10 --witness, or in the
// thorough tier): histories of registrations and Headers() calls are replayed on the real router and, for every
// request of a small universe, the outcome of ServeHTTP (shortcut first) is compared with full tree matching on the
// router's own trees.

import (
	"encoding/json"
	"fmt"
	"net/http"
	"os"
	"testing"
)

var c10Routes = []string{"/", "/a", "/a/b", "/a/?b", "/q/?r", "/{x}", "/a/{y}", "/{**}", "/a/b/c", "/{t}/s/h", "/{n: /[0-9]+/}/i/all", "/a/", "/b/?{o}"}

var c10Paths = []string{"", "/", "//", "/a", "//a", "/a/", "/a/b", "/a//b", "//a/b", "/a/b/", "/a/?b", "/q", "/q/r", "/q/?r", "/a/b/c", "/{t}/s/h", "/z/s/h",
	"/{n: /[0-9]+/}/i/all", "/5/i/all", "/{x}", "/{**}", "/b", "/b/", "/b/?{o}", "/b/k", "/a/{y}", "/zz"}

type c10Op struct {
	Kind   string // "route" | "any" | "headers" | "noheaders" | "autohead" | "noautohead"
	Route  string
	Target int // headers ops: index of the registration they apply to
}

type c10Input struct {
	Ops    []c10Op
	Method string
	Path   string
	Header bool
}

func c10Replay(ops []c10Op) (v *vrRouter, ok bool) {
	v = vrNew()
	var regs []*Route
	defer func() {
		if r := recover(); r != nil {
			ok = false // an ill-formed history (duplicate route, ...): registration is C08's subject
		}
	}()
	for _, op := range ops {
		switch op.Kind {
		case "autohead":
			v.r.AutoHead(true)
		case "noautohead":
			v.r.AutoHead(false)
		case "route":
			regs = append(regs, v.r.Get(op.Route, func() {}))
		case "any":
			regs = append(regs, v.r.Any(op.Route, func() {}))
		case "headers":
			if op.Target < len(regs) {
				regs[op.Target].Headers("X-K", "^v$")
			}
		case "noheaders":
			if op.Target < len(regs) {
				regs[op.Target].Headers()
			}
		}
	}
	return v, true
}

func c10Check(in c10Input) (string, bool) {
	v, ok := c10Replay(in.Ops)
	if !ok {
		return "", true
	}
	h := http.Header{}
	if in.Header {
		h.Set("X-K", "v")
	}
	got, want := v.serve(in.Method, in.Path, h), v.tree(in.Method, in.Path, h)
	if !vrSame(got, want) {
		return fmt.Sprintf("%s %q (X-K set: %v): ServeHTTP gives %v, full tree matching gives %v", in.Method, in.Path, in.Header, got, want), false
	}
	return "", false
}

func TestVerifReplayC10(t *testing.T) {
	if in := os.Getenv("VERIF_REPLAY_INPUT"); in != "" {
		var x c10Input
		json.Unmarshal([]byte(in), &x)
		if what, _ := c10Check(x); what != "" {
			b, _ := json.Marshal(x)
			fmt.Printf("REPLAY-FAIL %s\n", b)
			t.Fatal(what)
		}
		return
	}
	count, hist, found := 0, 0, false
	var try func(ops []c10Op) bool
	try1 := func(ops []c10Op) bool {
		hist++
		v, ok := c10Replay(ops)
		if !ok {
			return false
		}
		for _, m := range []string{"GET", "POST", "HEAD", "PROPFIND", "get"} {
			for _, p := range c10Paths {
				for _, hd := range []bool{false, true} {
					h := http.Header{}
					if hd {
						h.Set("X-K", "v")
					}
					count++
					got, want := v.serve(m, p, h), v.tree(m, p, h)
					if !vrSame(got, want) {
						in := c10Input{Ops: ops, Method: m, Path: p, Header: hd}
						b, _ := json.Marshal(in)
						fmt.Printf("REPLAY-FAIL %s\n", b)
						fmt.Printf("REPLAY-WHAT %s %q (X-K set: %v): ServeHTTP gives %v, full tree matching gives %v\n", m, p, hd, got, want)
						return true
					}
				}
			}
		}
		return false
	}
	// every history is also replayed with AutoHead switched on first (GET registrations then have a HEAD twin)
	try = func(ops []c10Op) bool {
		return try1(ops) || try1(append([]c10Op{{Kind: "autohead"}}, ops...))
	}
	headerOps := [][]c10Op{nil, {{Kind: "headers", Target: 0}}, {{Kind: "headers", Target: 1}}, {{Kind: "headers", Target: 0}, {Kind: "noheaders", Target: 0}},
		{{Kind: "noheaders", Target: 0}}, {{Kind: "headers", Target: 1}, {Kind: "noheaders", Target: 1}}}
search:
	for size := 1; size <= 2; size++ {
		for i := range c10Routes {
			for j := range c10Routes {
				if size == 1 && j > 0 {
					break
				}
				if size == 2 && i == j {
					continue
				}
				for _, kind := range []string{"route", "any"} {
					ops := []c10Op{{Kind: kind, Route: c10Routes[i]}}
					if size == 2 {
						ops = append(ops, c10Op{Kind: "route", Route: c10Routes[j]})
					}
					for _, ho := range headerOps {
						// header ops both after all registrations and between them
						if try(append(append([]c10Op{}, ops...), ho...)) {
							found = true
							break search
						}
						if size == 2 && len(ho) > 0 && ho[0].Target == 0 {
							mid := append(append([]c10Op{ops[0]}, ho...), ops[1])
							if try(mid) {
								found = true
								break search
							}
						}
					}
				}
			}
		}
	}
	// longer histories: a static route, then routes that could shadow it or share its prefix, with Headers() calls in between
	if !found {
	triples:
		for _, first := range []string{"/a", "/a/b", "/", "/a/b/c", "/a/"} {
			for _, second := range []string{"/{x}", "/a/{y}", "/{**}", "/a/?b", "/{t}/s/h", "/a/b/c", "/b/?{o}"} {
				for _, third := range []string{"/a/b", "/q/?r", "/{x}", "/a/{y}", "/"} {
					if first == second || first == third || second == third {
						continue
					}
					for _, ho := range [][]c10Op{nil, {{Kind: "headers", Target: 0}}, {{Kind: "headers", Target: 2}}, {{Kind: "headers", Target: 0}, {Kind: "noheaders", Target: 0}}} {
						ops := []c10Op{{Kind: "route", Route: first}, {Kind: "any", Route: second}}
						ops = append(ops, ho...)
						ops = append(ops, c10Op{Kind: "route", Route: third})
						if try(ops) {
							found = true
							break triples
						}
					}
				}
			}
		}
	}
	fmt.Printf("REPLAY-STATS %d histories (registrations and Headers calls), %d requests compared, found=%v\n", hist, count, found)
	if found {
		t.Fail()
	}
}
