package flamego

// Shared by the root-package witness-search drivers: a real router whose context creator records which chain
// was run for a request (route handlers or the not-found chain), with which parameters, and how many chains ran.

import (
	"fmt"
	"net/http"
	"net/http/httptest"
	"net/url"
	"sort"
	"strings"

	"github.com/flamego/flamego/internal/route"
)

type vrOutcome struct {
	Chains   int
	Found    bool
	Params   map[string]string
	Panicked string
}

func (o vrOutcome) String() string {
	if o.Panicked != "" {
		return "panic: " + o.Panicked
	}
	if !o.Found {
		return fmt.Sprintf("not-found (chains=%d)", o.Chains)
	}
	var ks []string
	for k := range o.Params {
		ks = append(ks, k)
	}
	sort.Strings(ks)
	var sb strings.Builder
	for _, k := range ks {
		fmt.Fprintf(&sb, " %s=%q", k, o.Params[k])
	}
	return fmt.Sprintf("route%s (chains=%d)", sb.String(), o.Chains)
}

type vrRouter struct {
	r    *router
	last vrOutcome
}

func vrNew() *vrRouter {
	v := &vrRouter{}
	creator := func(w http.ResponseWriter, req *http.Request, params route.Params, handlers []Handler, urlPath urlPather) internalContext {
		v.last.Chains++
		if params != nil {
			v.last.Found = true
			v.last.Params = map[string]string{}
			for k, val := range params {
				v.last.Params[k] = val
			}
		}
		return newContext(w, req, params, handlers, urlPath)
	}
	v.r = newRouter(creator).(*router)
	return v
}

func (v *vrRouter) serve(method, path string, header http.Header) vrOutcome {
	v.last = vrOutcome{}
	if header == nil {
		header = http.Header{}
	}
	req := &http.Request{Method: method, URL: &url.URL{Path: path}, Header: header, Proto: "HTTP/1.1", ProtoMajor: 1, ProtoMinor: 1}
	func() {
		defer func() {
			if r := recover(); r != nil {
				v.last.Panicked = fmt.Sprint(r)
			}
		}()
		v.r.ServeHTTP(httptest.NewRecorder(), req)
	}()
	return v.last
}

// tree is what full tree matching gives for the same method and path.
func (v *vrRouter) tree(method, path string, header http.Header) vrOutcome {
	t, ok := v.r.routeTrees[method]
	if !ok {
		return vrOutcome{Chains: 1}
	}
	if header == nil {
		header = http.Header{}
	}
	leaf, params, ok := t.Match(path, header)
	if !ok {
		return vrOutcome{Chains: 1}
	}
	out := vrOutcome{Chains: 1, Found: true, Params: map[string]string{"route": leaf.Route()}}
	for k, val := range params {
		out.Params[k] = val
	}
	return out
}

func vrSame(a, b vrOutcome) bool { return a.String() == b.String() }

// vrSameChoice: same chain, same chosen route, and every parameter of want present in got; got may hold extra
// values left by branches that lost ("The Params may contain extra values ... due to backtrace", Tree.Match).
func vrSameChoice(got, want vrOutcome) bool {
	if got.Panicked != want.Panicked || got.Found != want.Found || got.Chains != want.Chains {
		return false
	}
	for k, v := range want.Params {
		if got.Params[k] != v {
			return false
		}
	}
	return true
}
