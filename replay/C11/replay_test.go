package flamego

// Witness search for C11 (run only after a deductive obligation of C11 failed, by ./check C11 --witness, or in the
// thorough tier): registration programs (nested groups with handlers whose slices have spare capacity, Combo with
// common handlers, Routes with comma lists and extra method strings, Any, AutoHead toggles) are run on the real
// framework next to their flat expansion into single-method registrations; for every request the handler trace,
// the parameters and the status must be identical.

import (
	"encoding/json"
	"fmt"
	"io"
	"math/rand"
	"net/http/httptest"
	"os"
	"sort"
	"strconv"
	"strings"
	"testing"
)

type c11Node struct {
	Kind     string // group get post any routes combo autohead
	Path     string
	NH       int      // number of handlers (group handlers / route handlers / combo common handlers)
	Spare    bool     // pass the handlers as a slice with spare capacity
	Methods  []string // routes: methods; combo: methods in order
	NHs      []int    // combo: handlers per method
	On       bool     // autohead
	Children []c11Node
}

type c11Flat struct {
	Method string
	Path   string
	IDs    []string
}

type c11Input struct {
	Program []c11Node
	Method  string
	Path    string
}

type c11Builder struct {
	trace *[]string
	next  int
}

func (b *c11Builder) handlers(prefix string, n int, spare bool) ([]Handler, []string) {
	hs := make([]Handler, 0, n+5)
	var ids []string
	for i := 0; i < n; i++ {
		id := fmt.Sprintf("%s%d", prefix, b.next)
		b.next++
		ids = append(ids, id)
		hs = append(hs, func(c Context) { *b.trace = append(*b.trace, id) })
	}
	if !spare {
		hs = append([]Handler(nil), hs...) // cap == len
	}
	return hs, ids
}

// c11Run registers the program on f and returns its flat expansion as the statement describes it.
func c11Run(f *Flame, b *c11Builder, nodes []c11Node, prefix string, groupIDs []string, autoHead *bool, flat *[]c11Flat) {
	for _, n := range nodes {
		switch n.Kind {
		case "autohead":
			f.AutoHead(n.On)
			*autoHead = n.On
		case "group":
			hs, ids := b.handlers("g", n.NH, n.Spare)
			children := n.Children
			f.Group(n.Path, func() {
				c11Run(f, b, children, prefix+n.Path, append(append([]string{}, groupIDs...), ids...), autoHead, flat)
			}, hs...)
		case "get", "post", "any":
			hs, ids := b.handlers("h", n.NH, n.Spare)
			all := append(append([]string{}, groupIDs...), ids...)
			switch n.Kind {
			case "get":
				f.Get(n.Path, hs...)
				if *autoHead {
					*flat = append(*flat, c11Flat{"HEAD", prefix + n.Path, all})
				}
				*flat = append(*flat, c11Flat{"GET", prefix + n.Path, all})
			case "post":
				f.Post(n.Path, hs...)
				*flat = append(*flat, c11Flat{"POST", prefix + n.Path, all})
			case "any":
				f.Any(n.Path, hs...)
				for _, m := range []string{"GET", "HEAD", "POST", "PUT", "PATCH", "DELETE", "OPTIONS", "CONNECT", "TRACE"} {
					*flat = append(*flat, c11Flat{m, prefix + n.Path, all})
				}
			}
		case "routes":
			hs, ids := b.handlers("h", n.NH, n.Spare)
			all := append(append([]string{}, groupIDs...), ids...)
			// first method(s) as a comma list, the rest as extra method strings in front of the handlers
			k := (len(n.Methods) + 1) / 2
			args := []Handler{}
			for _, m := range n.Methods[k:] {
				args = append(args, m)
			}
			args = append(args, hs...)
			f.Routes(n.Path, strings.Join(n.Methods[:k], ", "), args...)
			for _, m := range n.Methods {
				*flat = append(*flat, c11Flat{strings.ToUpper(m), prefix + n.Path, all})
			}
		case "combo":
			common, cids := b.handlers("c", n.NH, n.Spare)
			cr := f.Combo(n.Path, common...)
			for i, m := range n.Methods {
				hs, ids := b.handlers("h", n.NHs[i], false)
				all := append(append(append([]string{}, groupIDs...), cids...), ids...)
				switch m {
				case "GET":
					cr.Get(hs...)
					if *autoHead {
						*flat = append(*flat, c11Flat{"HEAD", prefix + n.Path, all})
					}
				case "POST":
					cr.Post(hs...)
				case "PUT":
					cr.Put(hs...)
				case "DELETE":
					cr.Delete(hs...)
				}
				*flat = append(*flat, c11Flat{m, prefix + n.Path, all})
			}
		}
	}
}

func c11Serve(f *Flame, trace *[]string, method, path string) string {
	*trace = nil
	rec := httptest.NewRecorder()
	panicked := ""
	var params string
	func() {
		defer func() {
			if r := recover(); r != nil {
				panicked = fmt.Sprint(r)
			}
		}()
		f.ServeHTTP(rec, httptest.NewRequest(method, path, nil))
	}()
	return fmt.Sprintf("status=%d trace=%v %s%s", rec.Code, *trace, params, panicked)
}

func c11Instance(p string) string {
	var sb strings.Builder
	for i := 0; i < len(p); i++ {
		if p[i] == '{' {
			j := strings.IndexByte(p[i:], '}')
			sb.WriteString("7")
			i += j
			continue
		}
		sb.WriteByte(p[i])
	}
	return sb.String()
}

func c11Check(in c11Input) (what string, skipped bool) {
	var t1, t2 []string
	f1, f2 := NewWithLogger(io.Discard), NewWithLogger(io.Discard)
	b1 := &c11Builder{trace: &t1}
	var flat []c11Flat
	autoHead := false
	regPanic := ""
	func() {
		defer func() {
			if r := recover(); r != nil {
				regPanic = fmt.Sprint(r)
			}
		}()
		c11Run(f1, b1, in.Program, "", nil, &autoHead, &flat)
	}()
	if regPanic != "" {
		return "", true
	}
	paramLog := func(f *Flame, trace *[]string) {
		f.Use(func(c Context) {
			var ks []string
			for k, v := range c.Params() {
				ks = append(ks, k+"="+v)
			}
			sort.Strings(ks)
			*trace = append(*trace, "params["+strings.Join(ks, ",")+"]")
		})
	}
	paramLog(f1, &t1)
	paramLog(f2, &t2)
	// the flat list of single-method registrations, in order, with handlers of the same identities
	for _, fl := range flat {
		var hs []Handler
		for _, id := range fl.IDs {
			id := id
			hs = append(hs, func(c Context) { t2 = append(t2, id) })
		}
		switch fl.Method {
		case "GET":
			f2.Get(fl.Path, hs...)
		case "HEAD":
			f2.Head(fl.Path, hs...)
		case "POST":
			f2.Post(fl.Path, hs...)
		case "PUT":
			f2.Put(fl.Path, hs...)
		case "PATCH":
			f2.Patch(fl.Path, hs...)
		case "DELETE":
			f2.Delete(fl.Path, hs...)
		case "OPTIONS":
			f2.Options(fl.Path, hs...)
		case "CONNECT":
			f2.Connect(fl.Path, hs...)
		case "TRACE":
			f2.Trace(fl.Path, hs...)
		}
	}
	check := func(method, path string) string {
		a, b := c11Serve(f1, &t1, method, path), c11Serve(f2, &t2, method, path)
		if a != b {
			return fmt.Sprintf("%s %s: the program gives %s, its flat expansion gives %s", method, path, a, b)
		}
		return ""
	}
	if in.Path != "" {
		return check(in.Method, in.Path), false
	}
	seen := map[string]bool{}
	for _, fl := range flat {
		p := c11Instance(fl.Path)
		if seen[p] {
			continue
		}
		seen[p] = true
		for _, m := range []string{"GET", "HEAD", "POST", "PUT", "DELETE", "OPTIONS"} {
			if w := check(m, p); w != "" {
				return w, false
			}
		}
	}
	return "", false
}

func c11Random(rng *rand.Rand, depth int, uniq *int) []c11Node {
	var nodes []c11Node
	n := 1 + rng.Intn(3)
	for i := 0; i < n; i++ {
		*uniq++
		u := *uniq
		path := fmt.Sprintf("/r%d", u)
		if rng.Intn(4) == 0 {
			path = fmt.Sprintf("/r%d/{id%d}", u, u)
		}
		switch k := rng.Intn(9); {
		case k <= 1 && depth < 3:
			gp := fmt.Sprintf("/g%d", u)
			if rng.Intn(3) == 0 {
				gp = fmt.Sprintf("/g%d/{p%d}", u, u)
			}
			nodes = append(nodes, c11Node{Kind: "group", Path: gp, NH: rng.Intn(4), Spare: rng.Intn(2) == 0, Children: c11Random(rng, depth+1, uniq)})
		case k == 2:
			nodes = append(nodes, c11Node{Kind: "autohead", On: rng.Intn(2) == 0})
		case k == 3:
			nodes = append(nodes, c11Node{Kind: "post", Path: path, NH: 1 + rng.Intn(2), Spare: rng.Intn(2) == 0})
		case k == 4:
			nodes = append(nodes, c11Node{Kind: "any", Path: path, NH: 1 + rng.Intn(2)})
		case k == 5:
			ms := [][]string{{"GET", "POST"}, {"PUT"}, {"get", "DELETE", "OPTIONS"}, {"POST", "PUT", "PATCH", "HEAD"}}[rng.Intn(4)]
			nodes = append(nodes, c11Node{Kind: "routes", Path: path, NH: 1 + rng.Intn(2), Methods: ms, Spare: rng.Intn(2) == 0})
		case k == 6:
			ms := [][]string{{"GET", "POST"}, {"POST", "GET", "PUT"}, {"DELETE"}, {"PUT", "GET"}}[rng.Intn(4)]
			nhs := make([]int, len(ms))
			for j := range nhs {
				nhs[j] = 1 + rng.Intn(2)
			}
			nodes = append(nodes, c11Node{Kind: "combo", Path: path, NH: rng.Intn(3), Spare: rng.Intn(2) == 0, Methods: ms, NHs: nhs})
		default:
			nodes = append(nodes, c11Node{Kind: "get", Path: path, NH: 1 + rng.Intn(3), Spare: rng.Intn(2) == 0})
		}
	}
	return nodes
}

func TestVerifReplayC11(t *testing.T) {
	if in := os.Getenv("VERIF_REPLAY_INPUT"); in != "" {
		var x c11Input
		json.Unmarshal([]byte(in), &x)
		if what, _ := c11Check(x); what != "" {
			b, _ := json.Marshal(x)
			fmt.Printf("REPLAY-FAIL %s\n", b)
			t.Fatal(what)
		}
		return
	}
	// Combo refuses the same method twice
	refused := false
	func() {
		defer func() { refused = recover() != nil }()
		f := NewWithLogger(io.Discard)
		f.Combo("/twice").Get(func() {}).Post(func() {}).Get(func() {})
	}()
	found := false
	if !refused {
		fmt.Printf("REPLAY-FAIL %s\n", `{"Program":[{"Kind":"combo-twice"}]}`)
		fmt.Printf("REPLAY-WHAT Combo accepted the same method twice\n")
		found = true
	}
	seed, _ := strconv.Atoi(os.Getenv("VERIF_SEED"))
	rng := rand.New(rand.NewSource(int64(seed) + 11))
	programs := [][]c11Node{
		{{Kind: "group", Path: "/a", NH: 1, Spare: true, Children: []c11Node{{Kind: "group", Path: "/b", NH: 1, Spare: true, Children: []c11Node{
			{Kind: "group", Path: "/{p}", NH: 1, Spare: true, Children: []c11Node{{Kind: "get", Path: "/x", NH: 1}, {Kind: "post", Path: "/y", NH: 1}, {Kind: "get", Path: "/z", NH: 1}}}}},
			{Kind: "get", Path: "/after", NH: 1}}}, {Kind: "get", Path: "/top", NH: 1}},
		{{Kind: "autohead", On: true}, {Kind: "group", Path: "/g", NH: 2, Spare: true, Children: []c11Node{{Kind: "combo", Path: "/{id}/c", NH: 1, Spare: true, Methods: []string{"POST", "GET", "PUT"}, NHs: []int{1, 1, 1}}}},
			{Kind: "autohead", On: false}, {Kind: "combo", Path: "/c2", NH: 2, Spare: true, Methods: []string{"GET", "POST"}, NHs: []int{1, 2}}, {Kind: "get", Path: "/plain", NH: 1}},
		{{Kind: "group", Path: "/e", NH: 0, Children: []c11Node{}}, {Kind: "routes", Path: "/multi", NH: 2, Spare: true, Methods: []string{"GET", "POST", "PUT", "DELETE"}}, {Kind: "any", Path: "/any", NH: 1}},
	}
	for i := 0; i < 400; i++ {
		u := 0
		programs = append(programs, c11Random(rng, 0, &u))
	}
	count := 0
	for _, p := range programs {
		if found {
			break
		}
		in := c11Input{Program: p}
		what, skipped := c11Check(in)
		if skipped {
			continue
		}
		count++
		if what != "" {
			b, _ := json.Marshal(in)
			fmt.Printf("REPLAY-FAIL %s\n", b)
			fmt.Printf("REPLAY-WHAT %s\n", what)
			found = true
		}
	}
	fmt.Printf("REPLAY-STATS %d registration programs compared with their flat expansion, found=%v\n", count, found)
	if found {
		t.Fail()
	}
}
