package flamego

// Witness search for C05 (run only after a deductive obligation of C05 failed, by ./check C05 --witness, or in the
// thorough tier; built with -race): (1) a forced interleaving - request A is parked inside an application
// middleware while request B is served completely - must leave both responses what they are when served alone;
// (2) a storm of concurrent requests over static, dynamic, optional, regex, header-constrained and named routes,
// with a service resolved through the application injector's implementor scan, must answer every request as it
// is answered alone, with no data race reported by the race detector.

import (
	"fmt"
	"io"
	"net/http"
	"net/http/httptest"
	"os"
	"sync"
	"testing"
	"time"
)

type c05Greeter interface{ Greet() string }
type c05Svc struct{ name string }

func (s *c05Svc) Greet() string { return "hello from " + s.name }

func c05App(park func(c Context)) *Flame {
	f := NewWithLogger(io.Discard)
	// middleware registered one by one, so that the stack has spare capacity
	f.Use(func(c Context) {
		if park != nil {
			park(c)
		}
	})
	f.Use(func() {})
	f.Use(func() {})
	f.Use(Renderer())
	for cap(f.handlers) == len(f.handlers) {
		f.Use(func() {})
	}
	f.Map(&c05Svc{"app"})
	f.Get("/a", func() string { return "A" })
	f.Get("/b", func() string { return "B" })
	f.Get("/u/{name}", func(c Context) string { return "user:" + c.Param("name") }).Name("user")
	f.Get("/o/?{opt}", func(c Context) string { return "opt:" + c.Param("opt") })
	f.Get("/r/{id: /[0-9]+/}-{tag}", func(c Context) string { return "re:" + c.Param("id") + ":" + c.Param("tag") })
	f.Get("/s/{p: **}", func(c Context) string { return "all:" + c.Param("p") })
	f.Get("/h", func() string { return "with-header" }).Headers("X-K", "^v$")
	f.Get("/url/{x}", func(c Context) string { return c.URLPath("user", "name", c.Param("x")) })
	f.Get("/svc", func(g c05Greeter) string { return g.Greet() }) // resolved by the implementor scan of the application injector
	f.Get("/map/{v}", func(c Context) { c.Map(c05Svc{c.Param("v")}) }, func(s c05Svc) string { return "mapped:" + s.name })
	f.Get("/json/{v}", func(c Context, r Render) { r.JSON(201, map[string]string{"v": c.Param("v")}) })
	f.NotFound(func() (int, string) { return 404, "nf" })
	return f
}

type c05Req struct {
	path, want string
	header     bool
}

func c05Requests() []c05Req {
	var rs []c05Req
	for i := 0; i < 6; i++ {
		n := fmt.Sprint(i)
		rs = append(rs, c05Req{"/a", "A", false}, c05Req{"/b", "B", false}, c05Req{"/u/n" + n, "user:n" + n, false}, c05Req{"/o", "opt:", false}, c05Req{"/o/k" + n, "opt:k" + n, false},
			c05Req{"/r/" + n + "-t", "re:" + n + ":t", false}, c05Req{"/s/x/" + n, "all:x/" + n, false}, c05Req{"/h", "with-header", true}, c05Req{"/h", "nf", false},
			c05Req{"/url/z" + n, "/u/z" + n, false}, c05Req{"/svc", "hello from app", false}, c05Req{"/map/m" + n, "mapped:m" + n, false},
			c05Req{"/json/j" + n, "{\"v\":\"j" + n + "\"}\n", false}, c05Req{"/nope/" + n, "nf", false}, c05Req{"//a", "A", false})
	}
	return rs
}

func c05Serve(f *Flame, r c05Req) string {
	req := httptest.NewRequest(http.MethodGet, "http://x/", nil)
	req.URL.Path = r.path
	if r.header {
		req.Header.Set("X-K", "v")
	}
	rec := httptest.NewRecorder()
	f.ServeHTTP(rec, req)
	return rec.Body.String()
}

func TestVerifReplayC05(t *testing.T) {
	found := ""
	inconclusive := false
	// (1) forced interleaving
	aInside, release := make(chan struct{}), make(chan struct{})
	var once sync.Once
	f := c05App(func(c Context) {
		if c.Request().URL.Path == "/a" {
			parked := false
			once.Do(func() { parked = true })
			if parked {
				close(aInside)
				<-release
			}
		}
	})
	var bodyA string
	doneA := make(chan struct{})
	go func() {
		defer close(doneA)
		bodyA = c05Serve(f, c05Req{path: "/a"})
	}()
	select {
	case <-aInside:
	case <-time.After(120 * time.Second):
		// an overloaded machine, not a property of the code: this part of the search is inconclusive
		inconclusive = true
	}
	if found == "" && !inconclusive {
		for _, r := range c05Requests() {
			if r.path == "/a" {
				continue
			}
			if got := c05Serve(f, r); got != r.want {
				found = fmt.Sprintf("while another request is parked in a middleware, %s answers %q; alone it answers %q", r.path, got, r.want)
				break
			}
		}
		if found == "" {
			c05Serve(f, c05Req{path: "/b"}) // the last request served while A is parked belongs to another route
		}
		close(release)
		<-doneA
		if found == "" && bodyA != "A" {
			found = fmt.Sprintf("request /a, parked while other requests were served, answers %q; alone it answers \"A\"", bodyA)
		}
	}
	// (2) storm
	count := 0
	if found == "" {
		f2 := c05App(nil)
		reqs := c05Requests()
		var wg sync.WaitGroup
		var mu sync.Mutex
		for g := 0; g < 16; g++ {
			wg.Add(1)
			go func(g int) {
				defer wg.Done()
				for round := 0; round < 20; round++ {
					for i := range reqs {
						r := reqs[(i+g*7)%len(reqs)]
						got := c05Serve(f2, r)
						mu.Lock()
						count++
						if got != r.want && found == "" {
							found = fmt.Sprintf("under concurrency %s (X-K set: %v) answers %q; alone it answers %q", r.path, r.header, got, r.want)
						}
						mu.Unlock()
					}
				}
			}(g)
		}
		wg.Wait()
	}
	if found != "" {
		fmt.Printf("REPLAY-FAIL %s\n", `{"scenario":"concurrent requests"}`)
		fmt.Printf("REPLAY-WHAT %s\n", found)
	}
	fmt.Printf("REPLAY-STATS forced interleaving + %d concurrent requests from 16 goroutines (race detector: %v), found=%v\n", count, os.Getenv("VERIF_RACE") != "", found != "")
	if found != "" {
		t.Fail()
	}
}
