package flamego

// Witness search for C09 (run only after a deductive obligation of C09 failed, by ./check C09 --witness, or in the
// thorough tier): one route of a set is given header constraints (possibly re-specified); for every request the
// real router's outcome must equal that of the same router WITHOUT the route when the constraints fail, and that
// of the same router with the route unconstrained when they hold - for every method and both forms of an
// optional route.

import (
	"encoding/json"
	"fmt"
	"net/http"
	"os"
	"regexp"
	"testing"
)

var c09Targets = []string{"/", "/a", "/a/b", "/a/?b", "/a/?{o}", "/{x}", "/f/{p: **}", "/f/{p: **, capture: 2}", "/{n: /[0-9]+/}", "/?r", "/a/{y}/c", "/e/q%20d", "/e/%41"}
var c09Others = [][]string{nil, {"/{**}"}, {"/a"}, {"/a/{z}"}, {"/{w}"}, {"/f/{q}"}}
var c09Paths = []string{"/", "/a", "//a", "/a/", "/a/b", "/a/x", "/a/x/c", "/f/1", "/f/1/2", "/f/1/2/3", "/5", "/x", "/r", "/a/b/c", "/e/q d", "/e/q%20d", "/e/A", "/e/%41"}

// constraint histories: each is a list of Headers() calls (pairs); the last one is in force
var c09Histories = [][][]string{
	{{"X-K", "^v$"}},
	{{"X-K", "^v$", "X-L", ""}},
	{{"X-Old", "^never$"}, {"X-K", "^v$"}},
	{{"X-K", "(a)?"}},
}
var c09Headers = []http.Header{{}, {"X-K": {"v"}}, {"X-K": {"w"}}, {"X-K": {""}}, {"X-K": {"v"}, "X-L": {"1"}}, {"X-K": {"v"}, "X-L": {""}}, {"X-Old": {"never"}}, {"X-K": {"a"}}}

type c09Input struct {
	Target  string
	Others  int
	Any     bool
	History int
	Method  string
	Path    string
	Header  int
}

func c09Holds(pairs []string, h http.Header) bool {
	for i := 1; i < len(pairs); i += 2 {
		v := h.Get(pairs[i-1])
		if v == "" || !regexp.MustCompile(pairs[i]).MatchString(v) {
			return false
		}
	}
	return true
}

func c09Build(in c09Input, mode string) (v *vrRouter, ok bool) {
	v = vrNew()
	defer func() {
		if r := recover(); r != nil {
			ok = false
		}
	}()
	reg := func(path string) *Route {
		if in.Any {
			return v.r.Any(path, func() {})
		}
		return v.r.Get(path, func() {})
	}
	// the constrained route is registered first, so that lower-priority or later routes can take over
	if mode != "without" {
		rt := reg(in.Target)
		if mode == "constrained" {
			for _, pairs := range c09Histories[in.History%len(c09Histories)] {
				rt.Headers(pairs...)
			}
		}
	}
	for _, o := range c09Others[in.Others%len(c09Others)] {
		if o != in.Target {
			reg(o)
		}
	}
	return v, true
}

type c09Trio struct{ con, without, un *vrRouter }

func c09Trios(in c09Input) (*c09Trio, bool) {
	con, ok1 := c09Build(in, "constrained")
	without, ok2 := c09Build(in, "without")
	un, ok3 := c09Build(in, "unconstrained")
	if !ok1 || !ok2 || !ok3 {
		return nil, false
	}
	return &c09Trio{con, without, un}, true
}

func (t *c09Trio) check(in c09Input) string {
	h := c09Headers[in.Header%len(c09Headers)]
	hist := c09Histories[in.History%len(c09Histories)]
	got := t.con.serve(in.Method, in.Path, h)
	var want vrOutcome
	which := ""
	if c09Holds(hist[len(hist)-1], h) {
		want, which = t.un.serve(in.Method, in.Path, h), "the constraints hold: same as the unconstrained route"
	} else {
		want, which = t.without.serve(in.Method, in.Path, h), "the constraints fail: the route must be invisible"
	}
	if !vrSameChoice(got, want) {
		return fmt.Sprintf("route %q constrained by %v, request %s %q with %v: got %v, want %v (%s)", in.Target, hist, in.Method, in.Path, h, got, want, which)
	}
	return ""
}

func c09Check(in c09Input) (string, bool) {
	t, ok := c09Trios(in)
	if !ok {
		return "", true
	}
	return t.check(in), false
}

func TestVerifReplayC09(t *testing.T) {
	if in := os.Getenv("VERIF_REPLAY_INPUT"); in != "" {
		var x c09Input
		json.Unmarshal([]byte(in), &x)
		if what, _ := c09Check(x); what != "" {
			b, _ := json.Marshal(x)
			fmt.Printf("REPLAY-FAIL %s\n", b)
			t.Fatal(what)
		}
		return
	}
	count, found := 0, false
search:
	for _, target := range c09Targets {
		for o := range c09Others {
			for _, any := range []bool{false, true} {
				for hi := range c09Histories {
					trio, ok := c09Trios(c09Input{Target: target, Others: o, Any: any, History: hi})
					if !ok {
						continue
					}
					for _, m := range []string{"GET", "POST"} {
						if m == "POST" && !any {
							continue
						}
						for _, p := range c09Paths {
							for h := range c09Headers {
								in := c09Input{Target: target, Others: o, Any: any, History: hi, Method: m, Path: p, Header: h}
								count++
								if what := trio.check(in); what != "" {
									b, _ := json.Marshal(in)
									fmt.Printf("REPLAY-FAIL %s\n", b)
									fmt.Printf("REPLAY-WHAT %s\n", what)
									found = true
									break search
								}
							}
						}
					}
				}
			}
		}
	}
	fmt.Printf("REPLAY-STATS %d constrained-route requests compared, found=%v\n", count, found)
	if found {
		t.Fail()
	}
}
