package flamego

// Witness search for C17 (run only after a deductive obligation of C17 failed, or by ./check C17 --witness):
// JSON / XML / Binary / PlainText are called through the real framework for several statuses, option sets and
// values, and the response AS SENT (recorder result and a real server round trip) is compared with the
// statement: status, Content-Type, body decodes back / verbatim, standard encoders' indentation.

import (
	"bytes"
	"encoding/json"
	"encoding/xml"
	"fmt"
	"io"
	"net/http"
	"net/http/httptest"
	"os"
	"reflect"
	"testing"
)

type c17Val struct {
	XMLName xml.Name `json:"-" xml:"doc"`
	S       string   `json:"s" xml:"s"`
	N       int      `json:"n" xml:"n"`
	L       []string `json:"l" xml:"l>i"`
}

type c17Input struct {
	Kind    string // json xml binary text
	Status  int
	Opt     int
	Val     int
	InGroup bool
	Server  bool
}

var c17Opts = []RenderOptions{{}, {Charset: "iso-8859-1"}, {JSONIndent: "  "}, {XMLIndent: "\t"}, {Charset: "x", JSONIndent: " ", XMLIndent: "   "}}
var c17Vals = []c17Val{{}, {S: "a<b>&\"c", N: -5, L: []string{"x", "", "y z"}}, {S: "中国", N: 7}}
var c17Bytes = [][]byte{nil, {}, {1, 2, 3}, []byte("<html><body>x</body></html>"), []byte("\x89PNG\r\n\x1a\n0000"), bytes.Repeat([]byte("ab"), 5000)}

func c17Check(in c17Input) string {
	opt := c17Opts[in.Opt%len(c17Opts)]
	charset := opt.Charset
	if charset == "" {
		charset = "utf-8"
	}
	f := NewWithLogger(io.Discard)
	h := func(r Render) {
		switch in.Kind {
		case "json":
			r.JSON(in.Status, c17Vals[in.Val%len(c17Vals)])
		case "xml":
			r.XML(in.Status, c17Vals[in.Val%len(c17Vals)])
		case "binary":
			r.Binary(in.Status, c17Bytes[in.Val%len(c17Bytes)])
		case "text":
			r.PlainText(in.Status, string(c17Bytes[in.Val%len(c17Bytes)]))
		}
	}
	if in.InGroup {
		f.Group("/g", func() { f.Get("/x", h) }, Renderer(opt))
	} else {
		f.Use(Renderer(opt))
		f.Get("/g/x", h)
	}
	var status int
	var ct string
	var body []byte
	if in.Server {
		srv := httptest.NewServer(f)
		defer srv.Close()
		resp, err := http.Get(srv.URL + "/g/x")
		if err != nil {
			return "request failed: " + err.Error()
		}
		body, _ = io.ReadAll(resp.Body)
		resp.Body.Close()
		status, ct = resp.StatusCode, resp.Header.Get("Content-Type")
	} else {
		rec := httptest.NewRecorder()
		f.ServeHTTP(rec, httptest.NewRequest("GET", "/g/x", nil))
		resp := rec.Result()
		body, _ = io.ReadAll(resp.Body)
		status, ct = resp.StatusCode, resp.Header.Get("Content-Type")
	}
	if status != in.Status {
		return fmt.Sprintf("status %d, want %d", status, in.Status)
	}
	var wantCT string
	var wantBody []byte
	switch in.Kind {
	case "json":
		wantCT = "application/json; charset=" + charset
		var buf bytes.Buffer
		enc := json.NewEncoder(&buf)
		if opt.JSONIndent != "" {
			enc.SetIndent("", opt.JSONIndent)
		}
		enc.Encode(c17Vals[in.Val%len(c17Vals)])
		wantBody = buf.Bytes()
		var back c17Val
		if err := json.Unmarshal(body, &back); err != nil {
			return "body does not decode: " + err.Error()
		}
		want := c17Vals[in.Val%len(c17Vals)]
		back.XMLName, want.XMLName = xml.Name{}, xml.Name{}
		if !reflect.DeepEqual(back, want) {
			return fmt.Sprintf("body decodes to %+v, want %+v", back, want)
		}
	case "xml":
		wantCT = "text/xml; charset=" + charset
		var buf bytes.Buffer
		enc := xml.NewEncoder(&buf)
		if opt.XMLIndent != "" {
			enc.Indent("", opt.XMLIndent)
		}
		enc.Encode(c17Vals[in.Val%len(c17Vals)])
		wantBody = buf.Bytes()
	case "binary":
		wantCT = "application/octet-stream"
		wantBody = c17Bytes[in.Val%len(c17Bytes)]
	case "text":
		wantCT = "text/plain; charset=" + charset
		wantBody = c17Bytes[in.Val%len(c17Bytes)]
	}
	if ct != wantCT {
		return fmt.Sprintf("Content-Type %q as sent, want %q", ct, wantCT)
	}
	if !bytes.Equal(body, wantBody) {
		return fmt.Sprintf("body %q, want %q", truncateC17(body), truncateC17(wantBody))
	}
	return ""
}

func truncateC17(b []byte) string {
	if len(b) > 80 {
		return string(b[:80]) + "..."
	}
	return string(b)
}

func TestVerifReplayC17(t *testing.T) {
	if in := os.Getenv("VERIF_REPLAY_INPUT"); in != "" {
		var x c17Input
		json.Unmarshal([]byte(in), &x)
		if what := c17Check(x); what != "" {
			b, _ := json.Marshal(x)
			fmt.Printf("REPLAY-FAIL %s\n", b)
			t.Fatal(what)
		}
		return
	}
	count, found := 0, false
search:
	for _, server := range []bool{false, true} {
		for _, kind := range []string{"json", "xml", "binary", "text"} {
			for _, st := range []int{200, 201, 204, 304, 404, 500} {
				for o := range c17Opts {
					nv := len(c17Vals)
					if kind == "binary" || kind == "text" {
						nv = len(c17Bytes)
					}
					for v := 0; v < nv; v++ {
						for _, g := range []bool{false, true} {
							if server && (st != 201 || g) {
								continue // the real round trip is slower: one status, no group
							}
							in := c17Input{Kind: kind, Status: st, Opt: o, Val: v, InGroup: g, Server: server}
							count++
							if what := c17Check(in); what != "" {
								b, _ := json.Marshal(in)
								fmt.Printf("REPLAY-FAIL %s\n", b)
								fmt.Printf("REPLAY-WHAT %s\n", what)
								found = true
								break search
							}
						}
					}
				}
			}
		}
	}
	fmt.Printf("REPLAY-STATS %d render calls, found=%v\n", count, found)
	if found {
		t.Fail()
	}
}
