package route

// Witness search for C08 (run only after a deductive obligation of C08 failed, by ./check C08 --witness, or in the
// thorough tier): ordered pairs of route texts, well-formed and ill-formed, are registered in the real tree; the
// outcome (error at registration, never a panic, never an error later) is compared with the rules of the statement,
// and every accepted route must be reached by an instance of itself (when nothing of higher priority admits it).

import (
	"encoding/json"
	"fmt"
	"net/http"
	"os"
	"regexp"
	"strings"
	"testing"
)

var c08Pool = []string{
	"/", "/a", "/a/b", "/a/?b", "/a/?{o}", "/?a", "/?{r}", "/?a/b", "/a/?b/c", "/a//b", "//a", "/a/", "/{x}", "/{y}", "/{x}/{x}", "/{x}/{x: **}", "/{x: /a+/}-{x}", "/{x}/b/{x: /[0-9]+/}", "/{x}/{a: **}/b/{x}", "/r/{n: /[0-9]+/}/c/{n}", "/{x: /a+/}/{q: **}/{x}",
	"/{a: **}/{b: **}/c", "/{a: **}/{b: **}", "/x/{a: **}", "/x/{b: **}", "/{a: **}/x", "/{b: **}/y", "/{a: **}/y", "/{a: **, capture: 2}/x", "/{**}", "/{q: /(/}", "/{q: /a)(b/}", "/{q: /[0-9/}/z",
	"/{q: /(a|b)+/}/z", "/{q: /[0-9]+/}", "/{q: /[0-9]+/}/z", "/v{n: /[0-9]+/}", "/a/{p}/?{o}", "/a/b/?c", "/{x}-{z}", "/{x}.{x}",
	"/x/{m: **}.json", "/x/v{m: **}", "/x/{c: **}/?r", "/{e: **}/?t",
}

type c08Seg struct {
	mixedAll bool // a match-all bind next to other elements of the same segment
	text     string
	optional bool
	empty    bool
	all      bool
	binds    []string
	regexes  []string
}

func c08Parse(p *Parser, text string) ([]c08Seg, error) {
	ast, err := p.Parse(text)
	if err != nil {
		return nil, err
	}
	var out []c08Seg
	for _, s := range ast.Segments {
		cs := c08Seg{text: strings.TrimPrefix(strings.TrimPrefix(s.String(), "/"), "?"), optional: s.Optional, empty: len(s.Elements) == 0}
		for _, e := range s.Elements {
			switch {
			case e.BindIdent != nil:
				cs.binds = append(cs.binds, *e.BindIdent)
				if len(s.Elements) == 1 && *e.BindIdent == "**" {
					cs.all = true
				}
			case e.BindParameters != nil:
				for k, prm := range e.BindParameters.Parameters {
					if prm.Value.Regex != nil {
						cs.binds = append(cs.binds, prm.Ident)
						cs.regexes = append(cs.regexes, *prm.Value.Regex)
					} else if k == 0 {
						cs.binds = append(cs.binds, prm.Ident)
						if prm.Value.Literal != nil && *prm.Value.Literal == "**" {
							if len(s.Elements) == 1 {
								cs.all = true
							} else {
								cs.mixedAll = true
							}
						}
					}
				}
			}
		}
		out = append(out, cs)
	}
	return out, nil
}

func c08Forms(segs []c08Seg) [][]string {
	var full []string
	for _, s := range segs {
		full = append(full, s.text)
	}
	forms := [][]string{full}
	if segs[len(segs)-1].optional {
		short := full[:len(full)-1]
		if len(short) == 0 {
			short = []string{""}
		}
		forms = append(forms, short)
	}
	return forms
}

// c08Rules returns the reason the statement gives for rejecting the registration of segs after earlier ones ("" = accept).
func c08Rules(earlier [][]c08Seg, segs []c08Seg) string {
	last := len(segs) - 1
	seen := map[string]bool{}
	alls := 0
	for i, s := range segs {
		if i < last && s.optional {
			return "a non-final segment is optional"
		}
		if i < last && s.empty {
			return "an inner segment is empty"
		}
		if s.mixedAll {
			// a segment is static, a placeholder, regex-constrained or a match-all; a match-all bind is none of the first
			// three and is a match-all segment only when it is the whole segment
			return "a match-all bind next to other elements of its segment"
		}
		for _, b := range s.binds {
			if seen[b] {
				return "bind " + b + " is reused along the route"
			}
			seen[b] = true
		}
		if s.all && i < last {
			alls++
		}
		for _, re := range s.regexes {
			if _, err := regexp.Compile(re); err != nil {
				return "an expression does not compile"
			}
		}
	}
	if alls >= 2 {
		return "two match-all segments precede the end of the route"
	}
	for _, e := range earlier {
		for _, fa := range c08Forms(e) {
			for _, fb := range c08Forms(segs) {
				if strings.Join(fa, "\x00") == strings.Join(fb, "\x00") {
					return "the same route (or the short form of an optional one) is already registered"
				}
			}
		}
		// two different match-alls at one position: same prefix, both in the middle or both at the end
		// (the short form of a route with an optional last segment counts as a route of its own)
		variants := func(x []c08Seg) [][]c08Seg {
			out := [][]c08Seg{x}
			if len(x) > 1 && x[len(x)-1].optional {
				out = append(out, x[:len(x)-1])
			}
			return out
		}
		for _, ea := range variants(e) {
			for _, sb := range variants(segs) {
				for i := 0; i < len(ea) && i < len(sb); i++ {
					if ea[i].text != sb[i].text {
						if ea[i].all && sb[i].all && (i == len(ea)-1) == (i == len(sb)-1) {
							return "two different match-alls share a position"
						}
						break
					}
				}
			}
		}
	}
	return ""
}

func c08Instance(segs []c08Seg, long bool) (string, bool) {
	var parts []string
	for i, s := range segs {
		if s.optional && i == len(segs)-1 && !long {
			break
		}
		switch {
		case s.empty:
			parts = append(parts, "")
		case s.all:
			parts = append(parts, "m1", "m2")
			if strings.Contains(s.text, "capture: 1") {
				parts = parts[:len(parts)-1]
			}
		default:
			t := s.text
			for _, r := range [][2]string{{"{x}", "xv"}, {"{y}", "yv"}, {"{z}", "zv"}, {"{o}", "ov"}, {"{p}", "pv"}, {"{r}", "rv"}, {"{q: /(a|b)+/}", "ab"}, {"{q: /[0-9]+/}", "42"}, {"{n: /[0-9]+/}", "7"}, {"{x: /a+/}", "aa"}, {"{x: /[0-9]+/}", "9"}} {
				t = strings.ReplaceAll(t, r[0], r[1])
			}
			if strings.ContainsAny(t, "{}") {
				return "", false
			}
			parts = append(parts, t)
		}
	}
	if len(parts) == 0 {
		return "/", true
	}
	return "/" + strings.Join(parts, "/"), true
}

type c08Input struct{ Routes []string }

func c08Check(in c08Input) string {
	parser, err := NewParser()
	if err != nil {
		return "parser: " + err.Error()
	}
	tree := NewTree()
	var accepted [][]c08Seg
	var acceptedText []string
	for _, text := range in.Routes {
		ast, err := parser.Parse(text)
		segs, err2 := c08Parse(parser, text)
		if err != nil || err2 != nil {
			return "" // outside the grammar: the parser's subject (C06)
		}
		want := c08Rules(accepted, segs)
		var addErr error
		panicked := ""
		func() {
			defer func() {
				if r := recover(); r != nil {
					panicked = fmt.Sprint(r)
				}
			}()
			_, addErr = AddRoute(tree, ast, func(http.ResponseWriter, *http.Request, Params) {})
		}()
		if panicked != "" {
			return fmt.Sprintf("registering %q after %v panicked inside the tree: %s", text, acceptedText, panicked)
		}
		if want != "" && addErr == nil {
			return fmt.Sprintf("registering %q after %v was accepted; the statement rejects it: %s", text, acceptedText, want)
		}
		if want == "" && addErr != nil {
			return fmt.Sprintf("registering %q after %v failed (%v); the statement accepts it", text, acceptedText, addErr)
		}
		if addErr != nil {
			if os.Getenv("C08_STOP_AFTER_FAILURE") != "" {
				break
			}
			// a failed registration must not leave the tree in a state that fails later
			continue
		}
		accepted = append(accepted, segs)
		acceptedText = append(acceptedText, text)
	}
	// never later, during a request; and every accepted route is reachable by its own instances
	for i, segs := range accepted {
		for _, long := range []bool{true, false} {
			if !long && !segs[len(segs)-1].optional {
				continue
			}
			path, ok := c08Instance(segs, long)
			if !ok {
				continue
			}
			var leaf Leaf
			var found bool
			panicked := ""
			func() {
				defer func() {
					if r := recover(); r != nil {
						panicked = fmt.Sprint(r)
					}
				}()
				leaf, _, found = tree.Match(path, nil)
			}()
			if panicked != "" {
				return fmt.Sprintf("matching %q against %v panicked: %s", path, acceptedText, panicked)
			}
			if !found {
				return fmt.Sprintf("accepted route %q is not reached by its own instance %q (routes %v)", acceptedText[i], path, acceptedText)
			}
			if len(accepted) == 1 && leaf.Route() != acceptedText[i] {
				return fmt.Sprintf("instance %q of the only route %q was dispatched to %q", path, acceptedText[i], leaf.Route())
			}
		}
	}
	return ""
}

func TestVerifReplayC08(t *testing.T) {
	if in := os.Getenv("VERIF_REPLAY_INPUT"); in != "" {
		var x c08Input
		json.Unmarshal([]byte(in), &x)
		if what := c08Check(x); what != "" {
			b, _ := json.Marshal(x)
			fmt.Printf("REPLAY-FAIL %s\n", b)
			t.Fatal(what)
		}
		return
	}
	count, found := 0, false
	try := func(routes []string) bool {
		count++
		in := c08Input{Routes: routes}
		if what := c08Check(in); what != "" {
			b, _ := json.Marshal(in)
			fmt.Printf("REPLAY-FAIL %s\n", b)
			fmt.Printf("REPLAY-WHAT %s\n", what)
			return true
		}
		return false
	}
search:
	for i := range c08Pool {
		if try([]string{c08Pool[i]}) {
			found = true
			break search
		}
	}
	if !found {
	pairs:
		for i := range c08Pool {
			for j := range c08Pool {
				if try([]string{c08Pool[i], c08Pool[j]}) {
					found = true
					break pairs
				}
			}
		}
	}
	if !found {
	triples:
		for i := range c08Pool {
			for j := range c08Pool {
				for k := range c08Pool {
					if (i+j+k)%5 == 0 && try([]string{c08Pool[i], c08Pool[j], c08Pool[k]}) {
						found = true
						break triples
					}
				}
			}
		}
	}
	fmt.Printf("REPLAY-STATS %d registration sequences (pool of %d well- and ill-formed routes: singles, ordered pairs, a fifth of the triples), found=%v\n", count, len(c08Pool), found)
	if found {
		t.Fail()
	}
}
