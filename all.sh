#!/bin/bash
# runs the quick check of every property on /repo's working tree; exit 1 if any reports a violation or is broken
cd "$(dirname "$0")"
bad=0
for id in C01 C02 C03 C04 C05 C06 C07 C08 C09 C10 C11 C12 C13 C14 C15 C16 C17 C18; do
  out=$(./check $id --tier "${1:-quick}" 2>&1); rc=$?
  echo "$out" | tail -1
  if [ $rc -ne 0 ]; then bad=1; echo "$out" | grep -E "VIOLATION|BROKEN|obligation" | head -5; fi
done
exit $bad
