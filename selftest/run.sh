#!/bin/bash
# Must-fail / must-pass corpus for the engine and the contracts.  ./selftest/run.sh [PROP]
# Each mutant is applied to a scratch copy of /repo (outside /repo and /verif, removed afterwards); a must-fail
# mutant must make the property's quick check report a VIOLATION, a harmless edit must leave it at exit 0.
cd "$(dirname "$0")/.."
only=${1:-}
python3 - "$only" <<'PY'
import json, subprocess, sys, tempfile, shutil, os
only = sys.argv[1]
muts = json.load(open('selftest/mutants.json'))
ok = bad = 0
for m in muts:
    if only and m['prop'] != only: continue
    if m['expect'] == 'skip': continue
    d = tempfile.mkdtemp(prefix='govc-selftest-')
    try:
        os.makedirs(d+'/repo')
        subprocess.run('git -C /repo archive HEAD | tar -x -C %s/repo' % d, shell=True, check=True)  # the committed tree (independent of patches being tried on /repo)
        p = os.path.join(d,'repo',m['file'])
        s = open(p).read()
        if m['old'] not in s:
            print(f"STALE   {m['prop']} {m['name']}: text to replace not found in {m['file']}"); bad += 1; continue
        open(p,'w').write(s.replace(m['old'], m['new'], 1))
        b = subprocess.run('cd %s/repo && GOFLAGS=-mod=mod GOPROXY=off GOSUMDB=off GOTOOLCHAIN=local go build ./... 2>&1 | grep -v WARNING | head -3' % d, shell=True, capture_output=True, text=True)
        if b.stdout.strip():
            print(f"NOBUILD {m['prop']} {m['name']}: {b.stdout.strip()[:120]}"); bad += 1; continue
        r = subprocess.run(['./bin/govc','-repo',d+'/repo','-prop',m['prop'],'-outdir',d+'/out'], capture_output=True, text=True)
        viol = 'VIOLATION property='+m['prop'] in r.stdout
        good = (m['expect']=='violation' and viol and r.returncode==1) or (m['expect']=='pass' and not viol and r.returncode==0)
        first = next((l for l in r.stdout.split('\n') if l.strip().startswith('obligation')), '')
        print(('ok      ' if good else 'WRONG   ') + f"{m['prop']} {m['name']}: expect {m['expect']}, exit {r.returncode}{' | '+first.strip()[:110] if first else ''}")
        ok += good; bad += (not good)
    finally:
        shutil.rmtree(d, ignore_errors=True)
print(f"selftest: {ok} as expected, {bad} wrong")
sys.exit(1 if bad else 0)
PY
