#!/usr/bin/env python3
"""Mutation sweep: a systematic search for changes the contracts do not notice.

For every non-test source file of flamego a set of small syntactic mutations is generated line by line (operator flips,
off-by-one, dropped negation, swapped boolean constants, break<->continue, a dropped call statement, ...).  A mutant that
builds and leaves the package's own test suite green is then handed to the verifier (all functions under contract that
are declared in the files that can inline the mutated code, stop at the first failed obligation).  A mutant the verifier
accepts as well is a SURVIVOR: either an equivalent mutant or a gap in the contracts - to be looked at by hand.

Works on scratch copies under /tmp (removed afterwards); never touches /repo.  usage: mutsweep.py [file ...] > report
"""
import os, re, subprocess, sys, tempfile, shutil, json, hashlib

ENV = dict(os.environ, GOFLAGS='-mod=mod', GOPROXY='off', GOSUMDB='off', GOTOOLCHAIN='local')
REPO = os.environ.get('VERIF_REPO', '/repo')
GOVC = os.environ.get('GOVC', '/verif/bin/govc')

FILES = ['context.go', 'flame.go', 'handler.go', 'logger.go', 'recovery.go', 'render.go', 'request.go', 'response_writer.go',
         'return_handler.go', 'router.go', 'static.go', 'inject/inject.go', 'internal/route/definition.go',
         'internal/route/header_matcher.go', 'internal/route/leaf.go', 'internal/route/tree.go']
# functions of which files to verify for a mutant in a given file (the file itself plus files whose functions inline its code)
SCOPE = {
    'handler.go': 'handler.go,router.go,flame.go,context.go',
    'request.go': 'request.go,context.go',
    'return_handler.go': 'return_handler.go,context.go',
    'inject/inject.go': 'inject/',
    'internal/route/definition.go': 'route/,router.go',
    'internal/route/header_matcher.go': 'route/,router.go',
    'internal/route/leaf.go': 'route/,router.go',
    'internal/route/tree.go': 'route/,router.go',
    'router.go': 'router.go',
    'flame.go': 'flame.go,router.go',
}
PKG = lambda f: './' + os.path.dirname(f) if '/' in f else '.'

RULES = [
    (r'==', '!='), (r'!=', '=='), (r'<=', '<'), (r'>=', '>'), (r'(?<![<\-])<(?![=<\-])', '<='), (r'(?<![>\-=])>(?![=>])', '>='),
    (r'&&', '||'), (r'\|\|', '&&'), (r'\+ 1\b', '+ 0'), (r'- 1\b', '- 0'), (r'\+1\b', '+0'), (r'-1\b', '-0'),
    (r'\btrue\b', 'false'), (r'\bfalse\b', 'true'), (r'!(?=[a-zA-Z(])', ''), (r'\bbreak\b', 'continue'), (r'\bcontinue\b', 'break'),
    (r'\[1:\]', '[0:]'), (r'\[i:\]', '[i+1:]'), (r'\b0\b', '1'), (r'\+=', '-='), (r'\bi\+\+', 'i += 2'),
    (r'== nil', '!= nil'), (r'!= ""', '== ""'), (r'== ""', '!= ""'), (r'len\((\w+)\) > 0', r'len(\1) > 1'), (r'len\((\w+)\) == 0', r'len(\1) == 1'),
]
DROP = re.compile(r'^\s*(?:[\w.\[\]()*&]+)\((?:.*)\)\s*$')   # a call statement on its own line


def mutants(path):
    lines = open(path).read().split('\n')
    out = []
    in_block_comment = False
    for n, line in enumerate(lines):
        s = line.strip()
        if s.startswith('/*'):
            in_block_comment = True
        if in_block_comment:
            if '*/' in s:
                in_block_comment = False
            continue
        if not s or s.startswith('//') or s.startswith('import') or s.startswith('package') or s.startswith('"'):
            continue
        code = line.split('//')[0] if '"' not in line else line
        for pat, rep in RULES:
            for m in re.finditer(pat, code):
                # skip matches inside string literals (crude: odd number of quotes before the match)
                if code[:m.start()].count('"') % 2 == 1 or code[:m.start()].count('`') % 2 == 1:
                    continue
                new = code[:m.start()] + m.expand(rep) + code[m.end():]
                if new != code:
                    out.append((n, line, new + line[len(code):], f'{pat} -> {rep}'))
        if DROP.match(code) and not s.startswith(('return', 'defer', 'go ', 'panic(', 'if ', 'for ', 'switch ', 'case ', '}')):
            out.append((n, line, line[:len(line) - len(line.lstrip())] + '_ = 0 // dropped: ' + s, 'drop call'))
    return out


def run(cmd, cwd, timeout):
    try:
        r = subprocess.run(cmd, cwd=cwd, env=ENV, capture_output=True, text=True, timeout=timeout)
        return r.returncode, r.stdout + r.stderr
    except subprocess.TimeoutExpired:
        return 124, 'timeout'


def main():
    files = sys.argv[1:] or FILES
    work = tempfile.mkdtemp(prefix='mutsweep-')
    try:
        subprocess.run(f'git -C {REPO} archive HEAD | tar -x -C {work}', shell=True, check=True)
        stats = dict(generated=0, nobuild=0, suite_kills=0, verifier_kills=0, survivors=0)
        for f in files:
            path = os.path.join(work, f)
            orig = open(path).read()
            ms = mutants(path)
            seen = set()
            for n, old, new, rule in ms:
                key = (n, new)
                if key in seen:
                    continue
                seen.add(key)
                stats['generated'] += 1
                lines = orig.split('\n')
                lines[n] = new
                open(path, 'w').write('\n'.join(lines))
                try:
                    rc, out = run(['go', 'build', './...'], work, 120)
                    if rc != 0:
                        stats['nobuild'] += 1
                        continue
                    rc, out = run(['go', 'vet', PKG(f)], work, 120) if False else (0, '')
                    rc, out = run(['go', 'test', '-vet=off', '-count=1', '-timeout', '60s', PKG(f)], work, 100)
                    fails = [l for l in out.split('\n') if l.startswith('--- FAIL') and 'TestParser' not in l]
                    if rc == 124 or fails or ('panic:' in out and 'TestParser' not in out) or (rc != 0 and 'internal/route' not in PKG(f)):
                        stats['suite_kills'] += 1
                        continue
                    scope = SCOPE.get(f, os.path.basename(f))
                    rc, out = run([GOVC, '-repo', work, '-all', '-file', scope, '-failfast'], work, 900)
                    if rc != 0:
                        stats['verifier_kills'] += 1
                        first = next((l.strip() for l in out.split('\n') if 'FAIL' in l or 'SPEC ERROR' in l or 'outside' in l), out.strip()[-160:])
                        print(f'killed   {f}:{n+1} [{rule}] {new.strip()[:90]}  <= {first[:140]}', flush=True)
                    else:
                        stats['survivors'] += 1
                        print(f'SURVIVOR {f}:{n+1} [{rule}]\n    - {old.strip()}\n    + {new.strip()}', flush=True)
                finally:
                    open(path, 'w').write(orig)
            print(f'# {f}: {json.dumps(stats)}', flush=True)
        print('# total', json.dumps(stats))
    finally:
        shutil.rmtree(work, ignore_errors=True)


if __name__ == '__main__':
    main()
