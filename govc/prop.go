package main

// Property runner: collects the functions under contract that serve a property,
// discharges the obligations tagged with it, applies known findings, replays
// failures, writes evidence and prints VIOLATION / KNOWN-FINDING lines.

import (
	"bytes"
	"context"
	"encoding/json"
	"fmt"
	"os"
	"os/exec"
	"path/filepath"
	"sort"
	"strconv"
	"strings"
	"time"
)

type KnownFinding struct {
	Property   string `json:"property"`
	Obligation string `json:"obligation"`
	What       string `json:"what"`
	Witness    string `json:"witness"`
	Status     string `json:"status"` // open | fixed
	Commit     string `json:"commit,omitempty"`
}

type PropMeta struct {
	Level         string            `json:"level"`
	Explanation   string            `json:"explanation"`
	Assumptions   []string          `json:"assumptions"`
	ReplayPkg     string            `json:"replay_pkg"`  // package dir (relative to repo) the replay driver is injected into
	ReplayTest    string            `json:"replay_test"` // test function name
	Bounded       []string          `json:"bounded"`
	FrameAllow    []string          `json:"frame_allow"`    // C05: prefixes of modifies designators a request-path function may declare
	FrameExempt   map[string]string `json:"frame_exempt"`   // function -> reason (functions that run user code)
	BoundedPkg    string            `json:"bounded_pkg"`    // package dir (relative to repo) of the bounded stand-in test
	BoundedTest   string            `json:"bounded_test"`   // test function name (file: bounded/<id>/bounded_test.go)
	BoundedDir    string            `json:"bounded_dir"`    // directory under /verif/bounded holding the stand-in (default: the property id)
	BoundedMore   []BoundedSpec     `json:"bounded_more"`   // further stand-ins this property's proof leans on (shared with other properties)
	ReplayHelpers []string          `json:"replay_helpers"` // extra files (relative to /verif/replay) injected beside the driver
	ReplayRace    bool              `json:"replay_race"`    // build the driver with the race detector; a reported race is a witness
	Audit         []string          `json:"audit"`          // thorough tier: tests of /verif/audit (bounded differential audit of assumed library contracts)
}

type BoundedSpec struct {
	Dir  string `json:"dir"`
	Pkg  string `json:"pkg"`
	Test string `json:"test"`
}

func hasProp(ps []string, id string) bool {
	for _, p := range ps {
		if p == id {
			return true
		}
	}
	return false
}

// contractServes: does a contract serve property id (header props, safety props or clause tags)?
func contractServes(c *Contract, id string) bool {
	if hasProp(c.Props, id) || hasProp(c.Safety, id) {
		return true
	}
	for _, cl := range c.Ensures {
		if hasProp(cl.Props, id) {
			return true
		}
	}
	for _, ls := range c.Loops {
		for _, cl := range ls.Invariants {
			if hasProp(cl.Props, id) {
				return true
			}
		}
	}
	for _, a := range c.Asserts {
		if hasProp(a.C.Props, id) {
			return true
		}
	}
	return false
}

type violation struct {
	Obligation string
	Func       string
	Class      string
	Desc       string
	Pos        string
	Status     string
	Output     string
	Model      string
	Replay     string
	Found      bool
	Input      string
}

func runProperty(p *Prog, id, tier string, cfg SolverCfg, verifDir, outDir string) int {
	t0 := time.Now()
	seed := 0
	if s := os.Getenv("VERIF_SEED"); s != "" {
		seed, _ = strconv.Atoi(s)
	}
	var meta PropMeta
	if data, err := os.ReadFile(filepath.Join(verifDir, "props", id+".json")); err == nil {
		json.Unmarshal(data, &meta)
	}
	if meta.Level == "" {
		meta.Level = "proof"
	}
	var known []KnownFinding
	if data, err := os.ReadFile(filepath.Join(verifDir, "known_findings.json")); err == nil {
		if err := json.Unmarshal(data, &known); err != nil {
			fmt.Fprintln(os.Stderr, "govc: known_findings.json:", err)
			return 2
		}
	}

	// the witness-search driver (bounded, on the real code) runs beside the proof in both tiers; its answer is used
	// after a failed obligation (to attach a failing input) and, when every obligation is discharged, as a bounded
	// cross-check of the contracts against the statement
	type replayRes struct {
		found      bool
		input, out string
	}
	var replayCh chan replayRes
	if meta.ReplayTest != "" && os.Getenv("VERIF_NO_WITNESS") == "" {
		replayCh = make(chan replayRes, 1)
		go func() {
			f, in, out := runReplay(p.repo, verifDir, id, meta, seed, "", "")
			replayCh <- replayRes{f, in, out}
		}()
	}
	var keys []string
	for k, c := range p.cs.Funcs {
		if c.Kind == "func" && contractServes(c, id) {
			keys = append(keys, k)
		}
	}
	sort.Strings(keys)
	var viols []violation
	var vcs []*VC
	var jobs []job
	var broken []string
	trusted := map[string]bool{}
	var funcsUnder, inlined []string
	inlinedSet := map[string]bool{}
	notes := map[string]bool{}
	frameAudited := 0
	for _, k := range keys {
		c := p.cs.Funcs[k]
		fn := p.funcs[k]
		if fn == nil || len(fn.Blocks) == 0 {
			viols = append(viols, violation{Obligation: k + "#detached", Func: k, Class: "detached", Desc: "contract detached: function " + c.Target + " no longer exists; the property cannot be shown on code the contract does not attach to", Status: "detached"})
			continue
		}
		vc := VerifyFunction(p, fn, c)
		vcs = append(vcs, vc)
		funcsUnder = append(funcsUnder, vc.funcName())
		// frame audit: what a request-path function may declare in its modifies clause
		if len(meta.FrameAllow) > 0 && hasProp(c.Props, id) {
			if _, exempt := meta.FrameExempt[vc.funcName()]; !exempt {
				if c.ModAll {
					viols = append(viols, violation{Obligation: vc.funcName() + "#frame-audit@modifies:*", Func: vc.funcName(), Class: "frame", Desc: "request-path function declares `modifies *`", Status: "audit"})
				}
				for _, d := range c.ModSrc {
					ok := false
					for _, a := range meta.FrameAllow {
						if strings.HasPrefix(d, a) {
							ok = true
						}
					}
					if !ok {
						viols = append(viols, violation{Obligation: vc.funcName() + "#frame-audit@modifies:" + d, Func: vc.funcName(), Class: "frame", Desc: "request-path function may modify shared state: modifies " + d, Status: "audit"})
					}
				}
				frameAudited++
			}
		}
		for _, e := range vc.specErrors {
			viols = append(viols, violation{Obligation: vc.funcName() + "#contract", Func: vc.funcName(), Class: "detached", Desc: "contract no longer applies to the code: " + e, Status: "detached"})
		}
		// loops declared in the contract must exist
		for n := range c.Loops {
			if n >= len(vc.topFrame.loops) && !vc.adoptedHit[n] {
				viols = append(viols, violation{Obligation: fmt.Sprintf("%s#loop%d", vc.funcName(), n), Func: vc.funcName(), Class: "detached", Desc: fmt.Sprintf("contract names loop %d but the function has %d loops", n, len(vc.topFrame.loops)), Status: "detached"})
			}
		}
		for _, o := range vc.obls {
			if hasProp(o.Props, id) {
				jobs = append(jobs, job{vc, o})
			}
		}
		for _, o := range vc.covers {
			jobs = append(jobs, job{vc, o})
		}
		for t := range vc.trustedUsed {
			trusted[t] = true
		}
		for f := range vc.inlinedFns {
			if !inlinedSet[f] {
				inlinedSet[f] = true
				inlined = append(inlined, f)
			}
		}
		for _, n := range vc.notes {
			notes[n] = true
		}
		for _, n := range vc.outside {
			notes["outside subset ("+vc.funcName()+"): "+n] = true
		}
	}
	// lemmas tagged with the property; axioms (assumed) are listed
	for _, ax := range p.cs.Axioms {
		if !hasProp(ax.Props, id) {
			continue
		}
		if !ax.Lemma {
			trusted["axiom "+ax.Name+": "+ax.Src] = true
			continue
		}
		vc := VerifyLemma(p, ax)
		vcs = append(vcs, vc)
		for _, e := range vc.specErrors {
			viols = append(viols, violation{Obligation: "lemma." + ax.Name, Func: "lemma." + ax.Name, Class: "detached", Desc: "lemma cannot be translated: " + e, Status: "detached"})
		}
		for _, o := range vc.obls {
			jobs = append(jobs, job{vc, o})
		}
	}
	DischargeAll(cfg, jobs)

	nObl, nDis := 0, 0
	solverSecs := 0.0
	bySolver := map[string]int{}
	var samples []map[string]interface{}
	for _, j := range jobs {
		o := j.o
		solverSecs += o.Secs
		if o.Cover {
			if o.Status == "unsat" {
				broken = append(broken, "vacuous: "+o.Name+" is provably unreachable (contradictory preconditions/invariants)")
			}
			continue
		}
		nObl++
		if o.Status == "unsat" {
			nDis++
			bySolver[o.Solver]++
			if len(samples) < 8 && (o.Class == "post" || o.Class == "inv-keep" || o.Class == "frame" || len(samples) < 3) {
				samples = append(samples, map[string]interface{}{"obligation": o.Name, "class": o.Class, "what": o.Desc, "solver": o.Solver, "secs": round3(o.Secs), "script_lines": o.Prefix})
			}
			continue
		}
		v := violation{Obligation: o.Name, Func: o.Func, Class: o.Class, Desc: o.Desc, Pos: fmt.Sprintf("%s:%d", o.Pos.Filename, o.Pos.Line), Status: o.Status, Output: o.Output}
		if len(viols) < 3 { // a model query costs up to 10 s: only for the first few failed obligations
			v.Model = modelOf(j.vc, o, cfg)
		}
		viols = append(viols, v)
	}
	sort.Strings(inlined)

	// known findings and replay
	exit := 0
	nViol := 0
	var knownPrinted []string
	os.MkdirAll(filepath.Join(outDir, "replays", id), 0o755)
	replayDone := false
	var replayFound bool
	var replayInput, replayOut string
	for i := range viols {
		v := &viols[i]
		matched := false
		for _, kf := range known {
			if kf.Property == id && kf.Status != "fixed" && kf.Obligation == v.Obligation {
				matched = true
				line := fmt.Sprintf("KNOWN-FINDING: property=%s %s (obligation %s)", id, kf.What, kf.Obligation)
				fmt.Println(line)
				knownPrinted = append(knownPrinted, line)
			}
		}
		if matched {
			continue
		}
		nViol++
		// replay on the real code (one driver run per property and check)
		if meta.ReplayTest != "" && !replayDone {
			replayDone = true
			if replayCh != nil {
				r := <-replayCh
				replayFound, replayInput, replayOut = r.found, r.input, r.out
			} else {
				replayFound, replayInput, replayOut = runReplay(p.repo, verifDir, id, meta, seed, v.Model, "")
			}
		}
		v.Found, v.Input = replayFound, replayInput
		rp := filepath.Join(outDir, "replays", id, sanitize(v.Obligation)+".json")
		rec := map[string]interface{}{
			"property": id, "obligation": v.Obligation, "function": v.Func, "class": v.Class, "what": v.Desc, "where": v.Pos,
			"verifier_status": v.Status, "verifier_output": v.Output, "model": v.Model,
			"replay": map[string]interface{}{"driver": meta.ReplayTest, "failing_input_found": v.Found, "input": v.Input, "what": grepLine(replayOut, "REPLAY-WHAT "),
				"search": grepLine(replayOut, "REPLAY-STATS "), "output": truncate(lastLines(replayOut, 30), 4000)},
		}
		data, _ := json.MarshalIndent(rec, "", " ")
		os.WriteFile(rp, data, 0o644)
		if v.Found {
			fmt.Printf("VIOLATION property=%s replay=%s\n", id, rp)
		} else {
			fmt.Printf("VIOLATION property=%s replay=%s no-failing-input-found\n", id, rp)
		}
		fmt.Printf("  obligation %s [%s] %s (%s)\n", v.Obligation, v.Status, v.Desc, v.Pos)
		if v.Found {
			fmt.Printf("  failing input on the real code (%s): %s\n    %s\n", meta.ReplayTest, truncate(v.Input, 300), truncate(grepLine(replayOut, "REPLAY-WHAT "), 300))
		}
		exit = 1
	}
	// thorough tier: the witness search also runs when every obligation is discharged - a bounded cross-check of the
	// contracts against the statement on the real code; a failing input is a violation with a replayable input
	witnessInfo := map[string]interface{}{"driver": meta.ReplayTest, "ran": replayDone}
	if meta.ReplayTest != "" && !replayDone && (tier == "thorough" || replayCh != nil) {
		replayDone = true
		if replayCh != nil {
			r := <-replayCh
			replayFound, replayInput, replayOut = r.found, r.input, r.out
		} else {
			replayFound, replayInput, replayOut = runReplay(p.repo, verifDir, id, meta, seed, "", "")
		}
		witnessInfo["ran"] = true
		if replayFound {
			nViol++
			rp := filepath.Join(outDir, "replays", id, "witness_search.json")
			rec := map[string]interface{}{"property": id, "obligation": "witness search " + meta.ReplayTest + " (every deductive obligation is discharged; the search reads the statement directly)",
				"function": meta.ReplayTest, "class": "witness",
				"what":   grepLine(replayOut, "REPLAY-WHAT "),
				"replay": map[string]interface{}{"driver": meta.ReplayTest, "failing_input_found": true, "input": replayInput, "what": grepLine(replayOut, "REPLAY-WHAT "), "search": grepLine(replayOut, "REPLAY-STATS ")}}
			data, _ := json.MarshalIndent(rec, "", " ")
			os.WriteFile(rp, data, 0o644)
			fmt.Printf("VIOLATION property=%s replay=%s\n  witness search: %s\n    %s\n", id, rp, truncate(replayInput, 300), truncate(grepLine(replayOut, "REPLAY-WHAT "), 300))
			exit = 1
		} else if !strings.Contains(replayOut, "REPLAY-STATS") {
			if tier == "thorough" {
				broken = append(broken, "the witness-search driver did not finish: "+truncate(lastLines(replayOut, 12), 800))
			} else {
				// supplementary in the quick tier: recorded, not a verdict
				witnessInfo["did_not_finish"] = truncate(lastLines(replayOut, 6), 400)
			}
		}
	}
	if replayDone {
		witnessInfo["found"] = replayFound
		witnessInfo["search"] = grepLine(replayOut, "REPLAY-STATS ")
	}
	// bounded stand-in (labelled bounded, never counted as proof)
	var boundedStats string
	var bspecs []BoundedSpec
	if meta.BoundedTest != "" {
		bspecs = append(bspecs, BoundedSpec{Dir: meta.BoundedDir, Pkg: meta.BoundedPkg, Test: meta.BoundedTest})
	}
	bspecs = append(bspecs, meta.BoundedMore...)
	for _, bs := range bspecs {
		meta := meta
		meta.BoundedDir, meta.BoundedPkg, meta.BoundedTest = bs.Dir, bs.Pkg, bs.Test
		stats, fails, out := runBounded(p.repo, verifDir, id, meta, seed, tier, "")
		if boundedStats != "" {
			boundedStats += " ; "
		}
		boundedStats += bs.Test + ": " + stats
		if stats == "" {
			broken = append(broken, "bounded stand-in did not run: "+truncate(out, 400))
		}
		for _, fl := range fails {
			matched := false
			for _, kf := range known {
				if kf.Property == id && kf.Status != "fixed" && strings.Contains(fl, kf.Witness) && kf.Witness != "" {
					matched = true
					line := fmt.Sprintf("KNOWN-FINDING: property=%s %s", id, kf.What)
					fmt.Println(line)
					knownPrinted = append(knownPrinted, line)
				}
			}
			if matched {
				continue
			}
			nViol++
			rp := filepath.Join(outDir, "replays", id, fmt.Sprintf("bounded_%d.json", nViol))
			rec := map[string]interface{}{"property": id, "obligation": "bounded stand-in " + meta.BoundedTest, "function": meta.BoundedTest, "class": "bounded",
				"what": "the bounded stand-in found a failing input", "replay": map[string]interface{}{"driver": meta.BoundedTest, "failing_input_found": true, "input": fl, "bounded": true}}
			data, _ := json.MarshalIndent(rec, "", " ")
			os.WriteFile(rp, data, 0o644)
			fmt.Printf("VIOLATION property=%s replay=%s\n  bounded stand-in: %s\n", id, rp, truncate(fl, 300))
			exit = 1
			if nViol > 8 {
				break
			}
		}
	}
	// thorough tier: bounded audit of the assumed library contracts this property relies on
	auditStats := []string{"not run in the quick tier"}
	if len(meta.Audit) == 0 {
		auditStats = []string{"no library audit registered for this property"}
	} else if tier == "thorough" {
		stats, out, ok := runAudit(verifDir, meta.Audit)
		auditStats = stats
		if !ok {
			broken = append(broken, "an assumed library contract was refuted by the bounded audit (the machinery's assumption is wrong, not flamego): "+truncate(out, 600))
		}
	}
	if nObl == 0 && len(viols) == 0 {
		broken = append(broken, "no obligation generated for "+id)
	}
	for _, b := range broken {
		fmt.Println("BROKEN:", b)
		if exit == 0 {
			exit = 2
		}
	}

	// evidence
	var tb []string
	for t := range trusted {
		tb = append(tb, t)
	}
	sort.Strings(tb)
	tb = append(tb, "govc VC generator + go/ssa (x/tools v0.29.0)", "SMT solvers z3 4.8.12 / z3 5.1.0 / cvc5 1.0 (one unsat accepted)")
	var nl []string
	for n := range notes {
		nl = append(nl, n)
	}
	sort.Strings(nl)
	assumptions := append([]string{}, meta.Assumptions...)
	assumptions = append(assumptions,
		"machine integers are modelled as mathematical integers (overflow obligations only where the contract says `ovf`)",
		"strings/byte slices are byte sequences; map iteration order is arbitrary; no goroutines; memory exhaustion not modelled",
		"user callbacks act only as their functype contracts say (DESIGN.md §2.6)")
	assumptions = append(assumptions, nl...)
	level := meta.Level
	cov := map[string]interface{}{
		"obligations": nObl, "discharged": nDis,
		"checker_cmd":                          fmt.Sprintf("/verif/bin/govc -prop %s -tier %s", id, tier),
		"trusted_base":                         tb,
		"functions_under_contract":             funcsUnder,
		"functions_inlined_or_auto_summarised": inlined,
		"discharged_by_solver":                 bySolver,
		"solver_seconds":                       round3(solverSecs),
		"load_seconds":                         round3(p.loadSecs),
		"samples":                              samples,
		"known_findings_printed":               knownPrinted,
		"bounded_parts":                        meta.Bounded,
		"bounded_stats":                        boundedStats,
		"witness_search_bounded":               witnessInfo,
		"assumption_audit_bounded":             auditStats,
		"frame_audited_functions":              frameAudited,
		"explanation":                          meta.Explanation,
		"vacuity":                              fmt.Sprintf("%d cover checks (entry/exit reachability per function), %d provably unreachable", countCovers(jobs), len(broken)),
	}
	if len(samples) == 0 {
		cov["samples"] = []map[string]interface{}{{"note": "no obligation discharged"}}
	}
	ev := map[string]interface{}{
		"property_id": id, "tier": tier, "seed": seed, "level": level, "coverage": cov,
		"assumptions": assumptions, "wall_s": round3(time.Since(t0).Seconds() + p.loadSecs), "violations": nViol,
	}
	os.MkdirAll(filepath.Join(outDir, "evidence"), 0o755)
	data, _ := json.MarshalIndent(ev, "", " ")
	os.WriteFile(filepath.Join(outDir, "evidence", id+".json"), data, 0o644)
	fmt.Printf("%s: %d/%d obligations discharged over %d functions, %d violations, %.1fs\n", id, nDis, nObl, len(funcsUnder), nViol, time.Since(t0).Seconds()+p.loadSecs)
	return exit
}

func countCovers(jobs []job) int {
	n := 0
	for _, j := range jobs {
		if j.o.Cover {
			n++
		}
	}
	return n
}

func round3(f float64) float64 { return float64(int(f*1000+0.5)) / 1000 }

// modelOf asks z3 for values of the function's scalar parameters.
func modelOf(vc *VC, o *Obligation, cfg SolverCfg) string {
	var terms []string
	if vc.topFrame != nil {
		for i, prm := range vc.fn.Params {
			if i < len(vc.topFrame.params) {
				t := vc.topFrame.params[i].T
				switch t.Sort {
				case SInt, SBool:
					terms = append(terms, t.S)
				case SStr:
					terms = append(terms, "(slen "+t.S+")")
				case SSlice:
					terms = append(terms, "(sl-len "+t.S+")")
				}
				_ = prm
			}
		}
	}
	out := ModelFor(vc, o, cfg, terms)
	return truncate(strings.TrimSpace(out), 1500)
}

// runReplay injects the property's replay driver into the package with an
// overlay and runs it against the real code. The driver prints
// "REPLAY-FAIL <json>" for a failing input.
func runReplay(repo, verifDir, id string, meta PropMeta, seed int, model, input string) (bool, string, string) {
	src := filepath.Join(verifDir, "replay", id, "replay_test.go")
	if _, err := os.Stat(src); err != nil {
		return false, "", "no replay driver"
	}
	tmp, err := os.MkdirTemp("", "govc-replay")
	if err != nil {
		return false, "", err.Error()
	}
	defer os.RemoveAll(tmp)
	pkgDir := filepath.Join(repo, meta.ReplayPkg)
	ov := map[string]map[string]string{"Replace": {filepath.Join(pkgDir, "zz_verif_replay_"+strings.ToLower(id)+"_test.go"): src}}
	// helper files shared by drivers
	helpers, _ := filepath.Glob(filepath.Join(verifDir, "replay", id, "*_helper_test.go"))
	for _, h := range meta.ReplayHelpers {
		helpers = append(helpers, filepath.Join(verifDir, "replay", h))
	}
	for _, h := range helpers {
		ov["Replace"][filepath.Join(pkgDir, "zz_verif_"+filepath.Base(h))] = h
	}
	ovData, _ := json.Marshal(ov)
	ovPath := filepath.Join(tmp, "ov.json")
	os.WriteFile(ovPath, ovData, 0o644)
	ctx, cancel := context.WithTimeout(context.Background(), 180*time.Second)
	defer cancel()
	args := []string{"test", "-overlay", ovPath, "-vet=off", "-count=1", "-v", "-timeout", "150s", "-run", "^" + meta.ReplayTest + "$", "./" + meta.ReplayPkg}
	if meta.ReplayRace {
		args = append(args[:1], append([]string{"-race"}, args[1:]...)...)
	}
	cmd := exec.CommandContext(ctx, "go", args...)
	cmd.Dir = repo
	cmd.Env = append(os.Environ(), "GOFLAGS=-mod=mod", "GOPROXY=off", "GOSUMDB=off", "GOTOOLCHAIN=local",
		"VERIF_RACE="+map[bool]string{true: "1", false: ""}[meta.ReplayRace], "VERIF_SEED="+strconv.Itoa(seed), "VERIF_MODEL="+model, "VERIF_REPLAY_INPUT="+input, "GOCACHE="+filepath.Join(os.TempDir(), "govc-gocache"))
	var buf bytes.Buffer
	cmd.Stdout = &buf
	cmd.Stderr = &buf
	cmd.Run()
	out := buf.String()
	for _, line := range strings.Split(out, "\n") {
		if j := strings.Index(line, "REPLAY-FAIL "); j >= 0 {
			return true, strings.TrimSpace(line[j+len("REPLAY-FAIL "):]), out
		}
	}
	if meta.ReplayRace && strings.Contains(out, "WARNING: DATA RACE") {
		return true, `{"scenario":"data race reported by the race detector"}`, out
	}
	return false, "", out
}

// replayFile re-runs a stored replay against the current code.
func replayFile(repo, verifDir, path string) int {
	data, err := os.ReadFile(path)
	if err != nil {
		fmt.Fprintln(os.Stderr, err)
		return 2
	}
	var rec struct {
		Property   string `json:"property"`
		Obligation string `json:"obligation"`
		Replay     struct {
			Found   bool   `json:"failing_input_found"`
			Input   string `json:"input"`
			Bounded bool   `json:"bounded"`
		} `json:"replay"`
	}
	if err := json.Unmarshal(data, &rec); err != nil {
		fmt.Fprintln(os.Stderr, err)
		return 2
	}
	var meta PropMeta
	if d, err := os.ReadFile(filepath.Join(verifDir, "props", rec.Property+".json")); err == nil {
		json.Unmarshal(d, &meta)
	}
	if rec.Replay.Bounded {
		_, fails, out := runBounded(repo, verifDir, rec.Property, meta, 0, "quick", rec.Replay.Input)
		if len(fails) > 0 {
			fmt.Printf("VIOLATION property=%s replay=%s\n  input %s still fails on the current code\n", rec.Property, path, fails[0])
			return 1
		}
		fmt.Printf("replay %s: stored input no longer fails\n%s\n", path, truncate(out, 400))
		return 0
	}
	if !rec.Replay.Found {
		fmt.Printf("replay %s: no failing input was recorded for obligation %s (verifier output only)\n", path, rec.Obligation)
		return 0
	}
	found, input, out := runReplay(repo, verifDir, rec.Property, meta, 0, "", rec.Replay.Input)
	if found {
		fmt.Printf("VIOLATION property=%s replay=%s\n  input %s still fails on the current code\n", rec.Property, path, input)
		return 1
	}
	fmt.Printf("replay %s: stored input no longer fails\n%s\n", path, truncate(out, 600))
	return 0
}

// runBounded runs the property's bounded stand-in test against the real code.
func runBounded(repo, verifDir, id string, meta PropMeta, seed int, tier, input string) (stats string, fails []string, out string) {
	dir := id
	if meta.BoundedDir != "" {
		dir = meta.BoundedDir
	}
	src := filepath.Join(verifDir, "bounded", dir, "bounded_test.go")
	if _, err := os.Stat(src); err != nil {
		return "", nil, "no bounded test file"
	}
	tmp, err := os.MkdirTemp("", "govc-bounded")
	if err != nil {
		return "", nil, err.Error()
	}
	defer os.RemoveAll(tmp)
	pkgDir := filepath.Join(repo, meta.BoundedPkg)
	ov := map[string]map[string]string{"Replace": {filepath.Join(pkgDir, "zz_verif_bounded_"+strings.ToLower(id)+"_test.go"): src}}
	ovData, _ := json.Marshal(ov)
	ovPath := filepath.Join(tmp, "ov.json")
	os.WriteFile(ovPath, ovData, 0o644)
	ctx, cancel := context.WithTimeout(context.Background(), 40*time.Minute)
	defer cancel()
	cmd := exec.CommandContext(ctx, "go", "test", "-overlay", ovPath, "-vet=off", "-count=1", "-timeout", "35m", "-v", "-run", "^"+meta.BoundedTest+"$", "./"+meta.BoundedPkg)
	cmd.Dir = repo
	cmd.Env = append(os.Environ(), "GOFLAGS=-mod=mod", "GOPROXY=off", "GOSUMDB=off", "GOTOOLCHAIN=local",
		"VERIF_SEED="+strconv.Itoa(seed), "VERIF_TIER="+tier, "VERIF_REPLAY_INPUT="+input, "GOCACHE="+filepath.Join(os.TempDir(), "govc-gocache"))
	var buf bytes.Buffer
	cmd.Stdout = &buf
	cmd.Stderr = &buf
	cmd.Run()
	out = buf.String()
	for _, line := range strings.Split(out, "\n") {
		if j := strings.Index(line, "REPLAY-FAIL "); j >= 0 {
			fails = append(fails, strings.TrimSpace(line[j+len("REPLAY-FAIL "):]))
		}
		if j := strings.Index(line, "BOUNDED-STATS "); j >= 0 {
			stats = strings.TrimSpace(line[j+len("BOUNDED-STATS "):])
		}
	}
	return stats, fails, out
}

// runAudit runs the named tests of /verif/audit: bounded differential tests of the assumed
// standard-library contracts (trusted/*.spec) against the library actually linked.
func runAudit(verifDir string, tests []string) (stats []string, out string, ok bool) {
	ctx, cancel := context.WithTimeout(context.Background(), 20*time.Minute)
	defer cancel()
	cmd := exec.CommandContext(ctx, "go", "test", "-count=1", "-v", "-run", "^("+strings.Join(tests, "|")+")$", ".")
	cmd.Dir = filepath.Join(verifDir, "audit")
	cmd.Env = append(os.Environ(), "GOFLAGS=-mod=mod", "GOPROXY=off", "GOSUMDB=off", "GOTOOLCHAIN=local", "GOCACHE="+filepath.Join(os.TempDir(), "govc-gocache"))
	var buf bytes.Buffer
	cmd.Stdout = &buf
	cmd.Stderr = &buf
	err := cmd.Run()
	out = buf.String()
	for _, line := range strings.Split(out, "\n") {
		if j := strings.Index(line, "AUDIT-STATS "); j >= 0 {
			stats = append(stats, strings.TrimSpace(line[j+len("AUDIT-STATS "):]))
		}
	}
	return stats, out, err == nil && len(stats) > 0
}

func grepLine(out, prefix string) string {
	for _, line := range strings.Split(out, "\n") {
		if j := strings.Index(line, prefix); j >= 0 {
			return strings.TrimSpace(line[j+len(prefix):])
		}
	}
	return ""
}
