package main

func runProperty(p *Prog, id, tier string, cfg SolverCfg, verifDir string) int { return 2 }
