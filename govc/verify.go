package main

// Per-function verification: entry state, preconditions, body, postconditions,
// special calls.

import (
	"fmt"
	"go/token"
	"go/types"
	"strings"

	"golang.org/x/tools/go/ssa"
)

type tokenPos = token.Pos

type specialRes struct {
	st   *State
	vals []Value
}

// VerifyFunction generates all obligations of fn under contract c.
func VerifyFunction(p *Prog, fn *ssa.Function, c *Contract) (vc *VC) {
	vc = NewVC(p, fn, c)
	vc.missing = map[string]bool{}
	defer func() {
		if r := recover(); r != nil {
			if se, ok := r.(specError); ok {
				vc.specErrors = append(vc.specErrors, se.msg)
				return
			}
			panic(r)
		}
	}()
	env := vc.env
	vc.declConst("top!0", SInt)
	vc.assume(Le(IntLit(0), Term{"top!0", SInt}))
	st := &State{pc: True, locals: map[cellKey]Term{}, heaps: map[string]Term{}, gen: 0, top: Term{"top!0", SInt}}
	f := vc.newFrame(fn, nil)
	f.top = true
	vc.topFrame = f
	for _, prm := range fn.Params {
		name := prm.Name()
		t := vc.freshConst("p."+name, env.SortOf(prm.Type()))
		if !isStruct(prm.Type()) || true {
			if g := vc.valueFacts(st, t, prm.Type(), 0); g.S != "true" {
				vc.assume(g)
			}
		}
		f.params = append(f.params, Value{T: t})
		if name != "" && name != "_" {
			f.vars[name] = scopeVar{t, prm.Type()}
		}
	}
	for i, prm := range fn.Params {
		// a renamed parameter is still reachable under the name the contract uses
		if old := p.contractName(fn, prm.Name()); old != prm.Name() && i < len(f.params) {
			if _, taken := f.vars[old]; !taken {
				f.vars[old] = scopeVar{f.params[i].T, prm.Type()}
			}
		}
	}
	if c != nil && c.RecvAlias != "" && len(fn.Params) > 0 && fn.Signature.Recv() != nil {
		f.vars[c.RecvAlias] = scopeVar{f.params[0].T, fn.Params[0].Type()}
	}
	for _, fv := range fn.FreeVars {
		ref := vc.freshConst("fv."+fv.Name(), SInt)
		vc.assume(And(Lt(IntLit(0), ref), Le(Base(ref), st.top), Lt(IntLit(0), Base(ref))))
		elem := fv.Type().Underlying().(*types.Pointer).Elem()
		v := Value{T: ref}
		if !isStruct(elem) && !isArray(elem) {
			hn, hs := env.cellHeap(elem)
			v.Loc = &Loc{Kind: locHeap, Heap: hn, HSort: hs, Idx: ref, Typ: elem}
		}
		f.freeVars = append(f.freeVars, v)
	}
	// captured variables that provably hold one known function (local helper closures)
	for i := range fn.FreeVars {
		if i >= len(f.freeVars) {
			break
		}
		al, owner := resolveCaptured(fn, i)
		if al == nil {
			continue
		}
		var stored *ssa.Function
		nStores := 0
		for _, ref := range *al.Referrers() {
			if st, ok := ref.(*ssa.Store); ok && st.Addr == al {
				nStores++
				switch v := st.Val.(type) {
				case *ssa.MakeClosure:
					stored = v.Fn.(*ssa.Function)
				case *ssa.Function:
					stored = v
				}
			}
		}
		if nStores == 1 && stored != nil && !vc.cellWrittenElsewhere(al, owner) {
			if vc.cellFns == nil {
				vc.cellFns = map[string]*ssa.Function{}
			}
			vc.cellFns[f.freeVars[i].T.S] = stored
		}
	}
	// captured cells are pairwise distinct
	for i := range f.freeVars {
		for j := i + 1; j < len(f.freeVars); j++ {
			vc.assume(Not(Eq(f.freeVars[i].T, f.freeVars[j].T)))
		}
	}
	vc.entry = st.clone()
	f.entry = vc.entry
	if c == nil || c.ModAll {
		vc.allowAll = true
	}
	// global assumptions
	for _, g := range p.cs.Globals {
		sc := &Scope{vc: vc, pkg: p.typesPkg(g.PkgPath), vars: map[string]scopeVar{}, st: vc.entry, old: vc.entry}
		t, _, ok := vc.trExpr(sc, g.E, "global")
		if ok && vc.globalRelevant(g) {
			vc.assume(t)
			vc.trustedUsed["global assumption: "+g.Src] = true
		}
	}
	// receivers are non-nil (checked at every static call site)
	if fn.Signature.Recv() != nil && isPointer(fn.Signature.Recv().Type()) && len(f.params) > 0 {
		vc.assume(Not(Eq(f.params[0].T, IntLit(0))))
	}
	var alsos []*Contract
	if c != nil {
		for _, r := range append(append(append([]*Clause{}, c.Requires...), c.CapReq...), c.Assumes...) {
			t, ok := vc.trClause(vc.entryScopeF(f), r)
			if ok {
				vc.assume(t)
			}
			if r.Kind == "assumes" {
				vc.trustedUsed["assumed in "+vc.funcName()+": "+r.Src] = true
			}
		}
		vc.modTop = vc.evalMods(vc.entryScopeF(f), c)
		for _, a := range c.Also {
			key := a
			if !strings.Contains(key, ".") {
				key = vc.pkgOf(fn).Name() + "." + key
			}
			ft := p.cs.Funcs["functype::"+key]
			if ft == nil {
				vc.specErrors = append(vc.specErrors, "also functype "+a+": no such functype contract")
				continue
			}
			alsos = append(alsos, ft)
			sc := vc.alsoScope(f, ft, nil)
			for _, r := range ft.Requires {
				if t, ok := vc.trClause(sc, r); ok {
					vc.assume(t)
				}
			}
			vc.modTop = append(vc.modTop, vc.evalMods(sc, ft)...)
			if ft.ModAll {
				vc.allowAll = true
			}
		}
	}
	// cover: preconditions are satisfiable
	vc.addCover(st, "entry")
	out, results, ok := f.execBody(st)
	vc.checkAnchors()
	if !ok || out == nil {
		return vc
	}
	vc.addCover(out, "exit")
	if c != nil {
		for _, g := range c.Ghosts {
			if g.Anchor.Callee == "exit" {
				vc.exitVars = map[string]scopeVar{}
				sig := fn.Signature
				for i := 0; i < sig.Results().Len() && i < len(results); i++ {
					rv := sig.Results().At(i)
					if rv.Name() != "" && rv.Name() != "_" {
						vc.exitVars[rv.Name()] = scopeVar{results[i].T, rv.Type()}
					}
					vc.exitVars[fmt.Sprintf("result%d", i)] = scopeVar{results[i].T, rv.Type()}
					if i == 0 {
						vc.exitVars["result"] = scopeVar{results[i].T, rv.Type()}
					}
				}
				vc.execGhost(f, out, g)
				vc.exitVars = nil
			}
		}
		sc := vc.entryScopeF(f)
		sc.st = out
		sc.old = vc.entry
		sc.frame = f
		sc.paramsFirst = true
		sig := fn.Signature
		for i := 0; i < sig.Results().Len() && i < len(results); i++ {
			rv := sig.Results().At(i)
			if rv.Name() != "" && rv.Name() != "_" {
				sc.vars[rv.Name()] = scopeVar{results[i].T, rv.Type()}
			}
			sc.vars[fmt.Sprintf("result%d", i)] = scopeVar{results[i].T, rv.Type()}
			if i == 0 {
				sc.vars["result"] = scopeVar{results[i].T, rv.Type()}
			}
		}
		for _, e := range c.Ensures {
			parts, ok := vc.trGoal(sc, e)
			if ok {
				for _, g := range parts {
					vc.oblige(out, "post", e.Name+g.label, g.t, clauseProps(c, e), "postcondition: "+g.src, fn.Pos())
				}
			}
		}
		for _, ft := range alsos {
			asc := vc.alsoScope(f, ft, results)
			asc.st, asc.old = out, vc.entry
			for _, e := range ft.Ensures {
				parts, ok := vc.trGoal(asc, e)
				if ok {
					for _, g := range parts {
						vc.oblige(out, "post", "functype:"+ft.Target+":"+e.Name+g.label, g.t, clauseProps(c, e), "closure meets its function type's contract: "+g.src, fn.Pos())
					}
				}
			}
		}
		if c.PanicsIff {
			for _, pc := range c.Panics {
				t, ok := vc.trClause(vc.entryScopeF(f), pc)
				if ok {
					vc.oblige(out, "post", "nopanic:"+pc.Name, Not(t), clauseProps(c, pc), "returns normally only when the panics condition is false: "+pc.Src, fn.Pos())
				}
			}
		}
	}
	return vc
}

func (vc *VC) globalRelevant(g *GlobalInv) bool { return true }

func (vc *VC) entryScopeF(f *Frame) *Scope {
	sc := &Scope{vc: vc, pkg: vc.pkgOf(vc.fn), vars: map[string]scopeVar{}, st: vc.entry, old: vc.entry}
	for k, v := range f.vars {
		sc.vars[k] = v
	}
	// captured variables of closures: current content of the captured cell
	sc.frame = nil
	sc.freeFrame = f
	return sc
}

func (vc *VC) addCover(st *State, where string) {
	o := &Obligation{Name: fmt.Sprintf("%s#cover@%s", vc.funcName(), where), Class: "cover", Anchor: where, Goal: Not(st.pc), Prefix: len(vc.env.order), Cover: true, Func: vc.funcName(), Desc: "reachability of " + where + " (must NOT be provable unreachable)"}
	vc.covers = append(vc.covers, o)
}

// specialCall models a few library functions directly.
func (f *Frame) specialCall(st *State, in ssa.Instruction, fn *ssa.Function, args []Value, c *ssa.CallCommon) *specialRes {
	vc := f.vc
	name := shortFuncName(fn)
	switch name {
	case "(*sync.Once).Do":
		// sequential reading: if !fired { f(); fired = true }
		o := args[0].T
		hn, hs := "G_sync.Once.fired", ArraySort(SInt, SBool)
		fired := Select(st.Heap(vc, hn, hs), o)
		// branch: not yet fired
		a := st.clone()
		apc := vc.freshConst("pc.once", SBool)
		vc.assume(Eq(apc, And(st.pc, Not(fired))))
		a.pc = apc
		var aout *State
		if args[1].Fn != nil {
			aout, _ = f.callFunction(a, in, args[1].Fn, args[1].Bindings, nil, c)
		} else {
			aout, _ = f.havocCall(a, in, types.NewSignatureType(nil, nil, nil, nil, nil, false), "once body")
		}
		var ins []inEdge
		if aout != nil {
			vc.checkFrame(aout, hn, hs, o, in)
			aout.SetHeap(hn, Store(aout.Heap(vc, hn, hs), o, True))
			ins = append(ins, inEdge{aout, aout.pc})
		}
		b := st.clone()
		ins = append(ins, inEdge{b, And(st.pc, fired)})
		m := vc.merge(ins, "once")
		return &specialRes{m, nil}
	case "atomic.StoreInt32", "atomic.StoreInt64", "atomic.StoreUint32":
		if args[0].Loc != nil {
			f.writeLoc(st, *args[0].Loc, args[1].T, in)
			return &specialRes{st, nil}
		}
	case "atomic.LoadInt32", "atomic.LoadInt64", "atomic.LoadUint32":
		if args[0].Loc != nil {
			v := f.readLoc(st, *args[0].Loc)
			f.factsOf(st, v, args[0].Loc.Typ)
			return &specialRes{st, []Value{{T: v}}}
		}
	}
	return nil
}

// VerifyLemma turns a `lemma` declaration into a stand-alone obligation.
func VerifyLemma(p *Prog, ax *AxiomDecl) *VC {
	vc := NewVC(p, nil, nil)
	vc.lemmaName = "lemma." + ax.Name
	vc.missing = map[string]bool{}
	vc.declConst("top!0", SInt)
	st := &State{pc: True, locals: map[cellKey]Term{}, heaps: map[string]Term{}, gen: 0, top: Term{"top!0", SInt}}
	vc.entry = st
	sc := &Scope{vc: vc, pkg: p.typesPkg(ax.PkgPath), vars: map[string]scopeVar{}, st: st, old: st}
	t, _, ok := vc.trExpr(sc, ax.E, "lemma "+ax.Name)
	if ok {
		vc.oblige(st, "lemma", ax.Name, t, ax.Props, "lemma: "+ax.Src, 0)
	}
	return vc
}

// alsoScope binds the parameter names of a functype contract to the parameters
// of the function under verification (positionally).
func (vc *VC) alsoScope(f *Frame, ft *Contract, results []Value) *Scope {
	sc := &Scope{vc: vc, pkg: vc.p.typesPkg(ft.PkgPath), vars: map[string]scopeVar{}, st: vc.entry, old: vc.entry}
	names, typs := contractParamNames(ft, vc.fn.Signature, nil)
	for i, n := range names {
		if i < len(f.params) && n != "" && n != "_" {
			sc.vars[n] = scopeVar{f.params[i].T, typs[i]}
		}
	}
	sig := vc.fn.Signature
	for i := 0; i < sig.Results().Len() && i < len(results); i++ {
		rv := sig.Results().At(i)
		if i < len(ft.ResNames) {
			sc.vars[ft.ResNames[i]] = scopeVar{results[i].T, rv.Type()}
		}
		sc.vars[fmt.Sprintf("result%d", i)] = scopeVar{results[i].T, rv.Type()}
		if i == 0 {
			sc.vars["result"] = scopeVar{results[i].T, rv.Type()}
		}
	}
	return sc
}

// cellWrittenElsewhere: is the captured variable assigned inside any closure?
func (vc *VC) cellWrittenElsewhere(al *ssa.Alloc, parent *ssa.Function) bool {
	var all []*ssa.Function
	var collect func(g *ssa.Function)
	collect = func(g *ssa.Function) {
		for _, a := range g.AnonFuncs {
			all = append(all, a)
			collect(a)
		}
	}
	collect(parent)
	for _, anon := range all {
		for k := range anon.FreeVars {
			if a2, _ := resolveCaptured(anon, k); a2 == al {
				for _, ref := range *anon.FreeVars[k].Referrers() {
					if st, ok := ref.(*ssa.Store); ok && st.Addr == anon.FreeVars[k] {
						return true
					}
				}
			}
		}
	}
	return false
}

func (vc *VC) cellWrittenElsewhereOld(al *ssa.Alloc, parent *ssa.Function) bool {
	for _, anon := range parent.AnonFuncs {
		for i, fv := range anon.FreeVars {
			_ = i
			// find whether this free var corresponds to al
			for _, b := range parent.Blocks {
				for _, in := range b.Instrs {
					if mc, ok := in.(*ssa.MakeClosure); ok && mc.Fn == anon {
						for k, bnd := range mc.Bindings {
							if bnd == al && anon.FreeVars[k] == fv {
								for _, ref := range *fv.Referrers() {
									if st, ok := ref.(*ssa.Store); ok && st.Addr == fv {
										return true
									}
								}
							}
						}
					}
				}
			}
		}
	}
	return false
}

// resolveCaptured follows free variable i of closure fn up to the local variable
// (Alloc) of the enclosing function that it captures.
func resolveCaptured(fn *ssa.Function, i int) (*ssa.Alloc, *ssa.Function) {
	parent := fn.Parent()
	if parent == nil {
		return nil, nil
	}
	for _, b := range parent.Blocks {
		for _, in := range b.Instrs {
			mc, ok := in.(*ssa.MakeClosure)
			if !ok || mc.Fn != fn || i >= len(mc.Bindings) {
				continue
			}
			switch bnd := mc.Bindings[i].(type) {
			case *ssa.Alloc:
				return bnd, parent
			case *ssa.FreeVar:
				for k, fv := range parent.FreeVars {
					if fv == bnd {
						return resolveCaptured(parent, k)
					}
				}
			}
		}
	}
	return nil, nil
}

// mayReach reports whether `to` is reachable from `from` in the static call graph of the module, following direct
// calls, closures created in a function, and dispatch on the module's closed interfaces (calls through other
// function values are not followed).
func (vc *VC) mayReach(from, to *ssa.Function) bool {
	if from == nil || to == nil {
		return false
	}
	p := vc.p
	if p.reachCache == nil {
		p.reachCache = map[*ssa.Function]map[*ssa.Function]bool{}
	}
	set, ok := p.reachCache[from]
	if !ok {
		set = map[*ssa.Function]bool{}
		var visit func(f *ssa.Function)
		visit = func(f *ssa.Function) {
			for _, b := range f.Blocks {
				for _, in := range b.Instrs {
					var callees []*ssa.Function
					switch x := in.(type) {
					case ssa.CallInstruction:
						c := x.Common()
						if c.IsInvoke() {
							if p.closedInterface(c.Value.Type()) {
								for _, ct := range p.implementers(c.Value.Type()) {
									if m := p.methodOf(ct, c.Method); m != nil {
										callees = append(callees, m)
									}
								}
							}
						} else if g := c.StaticCallee(); g != nil {
							callees = append(callees, g)
						}
					case *ssa.MakeClosure:
						if g, ok := x.Fn.(*ssa.Function); ok {
							callees = append(callees, g)
						}
					}
					for _, g := range callees {
						if !p.inModule(g) || set[g] {
							continue
						}
						set[g] = true
						visit(g)
					}
				}
			}
		}
		visit(from)
		p.reachCache[from] = set
	}
	return set[to] || from == to
}
