package main

// Loop cutting: invariants, havoc of the modified state, decreases; map ranges.

import (
	"fmt"
	"sort"
	"go/types"
	"strings"

	"golang.org/x/tools/go/ssa"
)

func (f *Frame) loopSpec(li *loopInfo) *LoopSpec {
	if f.vc.c == nil {
		return nil
	}
	if !f.top {
		// a loop of an inlined helper adopts a loop contract the function under contract no longer has a loop for
		// (the loop was moved into the helper)
		if f.adoptBase < 0 {
			return nil
		}
		n := f.adoptBase + li.ordinal
		f.vc.adoptedHit[n] = true
		return f.vc.c.Loops[n]
	}
	return f.vc.c.Loops[li.ordinal]
}

// orphanLoops: ordinals of loop contracts beyond the loops the function under contract has itself.
func (vc *VC) orphanLoops() []int {
	if vc.c == nil || vc.topFrame == nil {
		return nil
	}
	own := len(analyseCFG(vc.fn).headers)
	var out []int
	for n := range vc.c.Loops {
		if n >= own {
			out = append(out, n)
		}
	}
	sort.Ints(out)
	return out
}

// canAdopt: a helper without contract whose loops can take over the orphaned loop contracts (in order).
func (vc *VC) canAdopt(fn *ssa.Function) (int, bool) {
	if !vc.p.inModule(fn) || len(fn.Blocks) == 0 {
		return -1, false
	}
	orph := vc.orphanLoops()
	k := len(analyseCFG(fn).headers)
	if k == 0 || len(orph) == 0 {
		return -1, false
	}
	// first orphan not yet adopted; the helper's loops take consecutive ordinals from there
	for _, n := range orph {
		if vc.adoptedHit[n] {
			continue
		}
		for j := 0; j < k; j++ {
			if _, ok := vc.c.Loops[n+j]; !ok {
				return -1, false
			}
		}
		return n, true
	}
	return -1, false
}

// loopScope builds the scope for invariants of the loop at state st.
func (f *Frame) loopScope(st *State, li *loopInfo) *Scope {
	sc := f.vc.entryScope()
	sc.st = st
	sc.old = f.vc.entry
	sc.pre = li.pre
	sc.frame = f
	return sc
}

// rangeIndexInv recognises the lowering of `for i := range slice` and returns
// the built-in inductive invariant  -1 <= rangeindex <= bound-1  as a function
// of the state (nil if the loop has another shape).
func (f *Frame) rangeIndexInv(b *ssa.BasicBlock) func(st *State) Term {
	if b.Comment != "rangeindex.loop" {
		return nil
	}
	var cell *ssa.Alloc
	var bound ssa.Value
	for _, in := range b.Instrs {
		switch x := in.(type) {
		case *ssa.Store:
			if a, ok := x.Addr.(*ssa.Alloc); ok && a.Comment == "rangeindex" {
				cell = a
			}
		case *ssa.BinOp:
			bound = x.Y
		}
	}
	if cell == nil || bound == nil || !f.scalarLocal(cell) {
		return nil
	}
	if _, ok := f.regs[bound]; !ok {
		if _, isConst := bound.(*ssa.Const); !isConst {
			return nil
		}
	}
	return func(st *State) Term {
		ri, ok := st.locals[cellKey{f, cell}]
		if !ok {
			return True
		}
		return And(Le(IntLit(-1), ri), Le(ri, Sub(f.val(bound).T, IntLit(1))))
	}
}

// rangeExpr returns the value of the slice operand of the k-th range-over-slice loop ("rangeexpr#k").
func (f *Frame) rangeExpr(name string) (Term, types.Type, bool) {
	want := 0
	if i := strings.Index(name, "#"); i >= 0 {
		fmt.Sscanf(name[i+1:], "%d", &want)
	}
	k := 0
	for _, b := range f.fn.Blocks {
		if b.Comment != "rangeindex.loop" {
			continue
		}
		if k != want {
			k++
			continue
		}
		for _, in := range b.Instrs {
			bo, ok := in.(*ssa.BinOp)
			if !ok || bo.Op.String() != "<" {
				continue
			}
			c, ok := bo.Y.(*ssa.Call)
			if !ok {
				return Term{}, nil, false
			}
			if bi, isB := c.Call.Value.(*ssa.Builtin); !isB || bi.Name() != "len" || len(c.Call.Args) != 1 {
				return Term{}, nil, false
			}
			v, ok := f.regs[c.Call.Args[0]]
			if !ok {
				return Term{}, nil, false
			}
			return v.T, c.Call.Args[0].Type(), true
		}
		return Term{}, nil, false
	}
	return Term{}, nil, false
}

func (f *Frame) enterLoop(st *State, b *ssa.BasicBlock, li *loopInfo) *State {
	vc := f.vc
	li.pre = st.clone()
	spec := f.loopSpec(li)
	li.auto = f.rangeIndexInv(b)
	if li.auto != nil {
		vc.oblige(st, "inv-init", fmt.Sprintf("loop%d.rangeindex", li.ordinal), li.auto(st), nil, "built-in range-index invariant holds on entry", b.Instrs[0].Pos())
	}
	if !f.top && spec == nil {
		vc.unsupported("loop inside inlined function %s", f.fn.Name())
	}
	// 1. invariants hold on entry
	if spec != nil {
		for _, inv := range spec.Invariants {
			sc := f.loopScope(st, li)
			parts, ok := vc.trGoal(sc, inv)
			if ok {
				for _, g := range parts {
					vc.oblige(st, "inv-init", inv.Name+g.label, g.t, clauseProps(vc.c, inv), "loop invariant holds on entry: "+g.src, b.Instrs[0].Pos())
				}
			}
		}
	}
	// 2. havoc what the loop may modify
	h := st.clone()
	cells, heaps, all := f.loopMods(li)
	for _, k := range cells {
		if old, ok := h.locals[k]; ok {
			nv := vc.freshConst("lp."+k.a.Comment, old.Sort)
			h.locals[k] = nv
			elem := k.a.Type().Underlying().(*types.Pointer).Elem()
			if g := vc.valueFacts(h, nv, elem, 0); g.S != "true" {
				vc.assumeIn(h, g)
			}
		}
	}
	if all {
		vc.env.fresh++
		h.gen = vc.env.fresh
		h.heaps = vc.keepPrivate(h.heaps)
	} else {
		for _, hn := range sortedKeys(heaps) {
			old := h.Heap(vc, hn, heaps[hn])
			nw := vc.freshConst("lp."+hn, old.Sort)
			h.SetHeap(hn, nw)
			if refs, ok := li.precise[hn]; ok && arrayKeySort(old.Sort) == SInt {
				// only known local objects are written: everything else keeps its value
				var neq []Term
				for _, r := range refs {
					if r.S == "|FRESH|" {
						neq = append(neq, Le(Base(Term{"r", SInt}), st.top))
						continue
					}
					neq = append(neq, Not(Eq(Term{"r", SInt}, r)))
				}
				vc.assumeIn(h, Term{fmt.Sprintf("(forall ((r Int)) (! (=> %s (= (select %s r) (select %s r))) :pattern ((select %s r))))", And(neq...).S, nw.S, old.S, nw.S), SBool})
			}
		}
	}
	ntop := vc.freshConst("lp.top", SInt)
	vc.assumeIn(h, Le(st.top, ntop))
	h.top = ntop
	for _, hn := range sortedKeys(h.heaps) {
		if strings.HasPrefix(hn, "A_") && strings.HasPrefix(h.heaps[hn].S, "lp.") {
			vc.aliveBound(h.heaps[hn], ntop)
		}
		if strings.HasPrefix(hn, "Mv_") && strings.HasPrefix(h.heaps[hn].S, "lp.") {
			vc.mapWF(h, hn)
		}
		if strings.HasPrefix(h.heaps[hn].S, "lp.") {
			vc.storedRefsAllocated(hn, h.heaps[hn], ntop)
		}
	}
	// 3. assume invariants
	if li.auto != nil {
		vc.assumeIn(h, li.auto(h))
	}
	if spec != nil {
		for _, inv := range spec.Invariants {
			sc := f.loopScope(h, li)
			t, ok := vc.trClause(sc, inv)
			if ok {
				vc.assumeIn(h, t)
			}
		}
		if spec.Decreases != nil {
			sc := f.loopScope(h, li)
			t, ok := vc.trClause(sc, spec.Decreases)
			if ok {
				li.decAt, li.hasDec = t, true
			}
		}
	}
	li.head = h
	return h
}

// closeLoop is called on a back edge to header `to` with state st under cond.
func (f *Frame) closeLoop(st *State, cond Term, to *ssa.BasicBlock) {
	vc := f.vc
	li := f.loops[to]
	spec := f.loopSpec(li)
	if li.auto != nil {
		e0 := st.clone()
		e0.pc = cond
		vc.oblige(e0, "inv-keep", fmt.Sprintf("loop%d.rangeindex", li.ordinal), li.auto(e0), nil, "built-in range-index invariant preserved", to.Instrs[0].Pos())
	}
	if spec == nil {
		return
	}
	e := st.clone()
	e.pc = cond
	for _, inv := range spec.Invariants {
		sc := f.loopScope(e, li)
		parts, ok := vc.trGoal(sc, inv)
		if ok {
			for _, g := range parts {
				vc.oblige(e, "inv-keep", inv.Name+g.label, g.t, clauseProps(vc.c, inv), "loop invariant preserved: "+g.src, to.Instrs[0].Pos())
			}
		}
	}
	if spec.Decreases != nil && li.hasDec {
		sc := f.loopScope(e, li)
		t, ok := vc.trClause(sc, spec.Decreases)
		if ok {
			vc.oblige(e, "dec", spec.Decreases.Name, And(Le(IntLit(0), li.decAt), Lt(t, li.decAt)), clauseProps(vc.c, spec.Decreases), "loop variant decreases and is bounded: "+spec.Decreases.Src, to.Instrs[0].Pos())
		}
	}
}

// loopMods computes (statically) the local cells and heaps the loop may modify.
func (f *Frame) loopMods(li *loopInfo) ([]cellKey, map[string]Sort, bool) {
	vc := f.vc
	heaps := map[string]Sort{}
	all := false
	var cells []cellKey
	seen := map[cellKey]bool{}
	addCell := func(a *ssa.Alloc) {
		k := cellKey{f, a}
		if !seen[k] {
			seen[k] = true
			cells = append(cells, k)
		}
	}
	li.precise = map[string][]Term{}
	imprecise := map[string]bool{}
	for _, b := range f.fn.Blocks {
		if !li.body[b] {
			continue
		}
		for _, in := range b.Instrs {
			// stores into struct-typed local variables allocated before the loop hit known objects
			if st, ok := in.(*ssa.Store); ok {
				if ref, t, ok := f.localStructTarget(st.Addr, li); ok {
					f.collectFieldHeaps(ref, t, func(hn string, hs Sort, r Term) {
						heaps[hn] = hs
						li.precise[hn] = append(li.precise[hn], r)
					})
					continue
				}
			}
			before := map[string]bool{}
			for k := range heaps {
				before[k] = true
			}
			tmp := map[string]Sort{}
			if vc.scanInstr(f, in, tmp, addCell, 0) {
				all = true
			}
			vc.ghostHeapsAt(in, tmp) // ghost statements anchored at this instruction write ghost heaps
			for k, v := range tmp {
				heaps[k] = v
				imprecise[k] = true
			}
		}
	}
	for k := range imprecise {
		delete(li.precise, k)
	}
	return cells, heaps, all
}

// ---- range over maps -----------------------------------------------------------

type rangeIter struct {
	m       Term
	mt      types.Type
	visited string // heap-like state cell name holding the visited set
	isStr   bool
}

func (f *Frame) execRange(st *State, x *ssa.Range) {
	vc := f.vc
	if _, ok := x.X.Type().Underlying().(*types.Map); !ok {
		vc.unsupported("range over string in %s", f.fn.Name())
		f.regs[x] = Value{T: IntLit(0)}
		return
	}
	m := f.val(x.X).T
	mt := x.X.Type().Underlying().(*types.Map)
	ks := vc.env.SortOf(mt.Key())
	name := vc.env.Fresh("visited")
	vs := ArraySort(ks, SBool)
	// the visited set lives in the state as a pseudo-heap so loops havoc it
	st.SetHeap(name, Term{fmt.Sprintf("((as const %s) false)", vs), vs})
	if vc.iters == nil {
		vc.iters = map[ssa.Value]*rangeIter{}
	}
	vc.iters[x] = &rangeIter{m: m, mt: x.X.Type(), visited: name}
	f.regs[x] = Value{T: IntLit(0)}
}

func (f *Frame) execNext(st *State, x *ssa.Next) {
	vc := f.vc
	env := vc.env
	it := vc.iters[x.Iter]
	if it == nil || x.IsString {
		vc.unsupported("string iteration in %s", f.fn.Name())
		tt := x.Type().(*types.Tuple)
		var tup []Value
		for i := 0; i < tt.Len(); i++ {
			tup = append(tup, Value{T: vc.freshConst("nx", env.SortOf(tt.At(i).Type()))})
		}
		f.regs[x] = Value{Tuple: tup}
		return
	}
	mt := it.mt.Underlying().(*types.Map)
	ks, es := env.SortOf(mt.Key()), env.SortOf(mt.Elem())
	vsort := ArraySort(ks, SBool)
	visited := st.Heap(vc, it.visited, vsort)
	dn, vn, ds, vs := env.mapHeaps(it.mt)
	dom := Select(st.Heap(vc, dn, ds), it.m)
	vals := Select(st.Heap(vc, vn, vs), it.m)
	ok := vc.freshConst("nx.ok", SBool)
	k := vc.freshConst("nx.k", ks)
	v := vc.freshConst("nx.v", es)
	// ok: k is an unvisited key of the map; !ok: every key has been visited
	vc.assumeIn(st, Implies(ok, And(Not(Eq(it.m, IntLit(0))), Select(dom, k), Not(Select(visited, k)), Eq(v, Select(vals, k)))))
	vc.assumeIn(st, Implies(Not(ok), Term{fmt.Sprintf("(forall ((kk %s)) (! (=> (and (not (= %s 0)) (select %s kk)) (select %s kk)) :pattern ((select %s kk)) :pattern ((select %s kk))))", ks, it.m.S, dom.S, visited.S, dom.S, visited.S), SBool}))
	st.SetHeap(it.visited, Ite(ok, Store(visited, k, True), visited))
	if !isStruct(mt.Elem()) {
		f.factsOf(st, v, mt.Elem())
	}
	f.factsOf(st, k, mt.Key())
	f.regs[x] = Value{Tuple: []Value{{T: ok}, {T: k}, {T: v}}}
}

func (f *Frame) execDefer(st *State, x *ssa.Defer) {
	vc := f.vc
	name := calleeName(x.Common())
	switch v := x.Call.Value.(type) {
	case *ssa.MakeClosure:
		fn := v.Fn.(*ssa.Function)
		vc.deferred = append(vc.deferred, vc.p.funcKey(fn))
		for _, b := range fn.Blocks {
			for _, in := range b.Instrs {
				if c, ok := in.(*ssa.Call); ok {
					if bi, ok := c.Call.Value.(*ssa.Builtin); ok && bi.Name() == "recover" {
						vc.recovers = true
						vc.note("deferred closure %s calls recover(): panics of callees do not escape %s (the closure is verified separately for both recover() outcomes)", fn.Name(), f.fn.Name())
					}
				}
			}
		}
		vc.note("deferred closure %s is verified separately (effect on tracked state must be declared in its own contract)", fn.Name())
		if vc.p.contractFor(fn) == nil {
			// nothing is known about what runs at function exit (and, with recover(), after a panic): not established
			vc.oblige(st, "frame", "defer:"+fn.Name(), False, nil, "deferred closure "+fn.Name()+" has no contract: what it does at function exit (writes, calls, recovered panics) is not accounted for", x.Pos())
		}
		return
	case *ssa.Function:
		vc.deferred = append(vc.deferred, vc.p.funcKey(v))
		vc.note("deferred call %s ignored in the enclosing function", name)
		return
	}
	vc.unsupported("defer of dynamic call %s", name)
}

// localStructTarget: addr designates (a field of) a struct-typed local variable
// allocated outside the loop; returns the object reference and the type stored.
func (f *Frame) localStructTarget(addr ssa.Value, li *loopInfo) (Term, types.Type, bool) {
	switch a := addr.(type) {
	case *ssa.Alloc:
		elem := a.Type().Underlying().(*types.Pointer).Elem()
		if !isStruct(elem) || f.scalarLocal(a) {
			// not a struct, or a struct-typed local held by value (no heap write at all)
			return Term{}, nil, false
		}
		if li.body[a.Block()] {
			// allocated anew in every iteration: a fresh object
			return Term{"|FRESH|", SInt}, elem, true
		}
		v, ok := f.regs[a]
		if !ok {
			return Term{}, nil, false
		}
		return v.T, elem, true
	case *ssa.FieldAddr:
		base, bt, ok := f.localStructTarget(a.X, li)
		if !ok {
			return Term{}, nil, false
		}
		st := bt.Underlying().(*types.Struct)
		ft := st.Field(a.Field).Type()
		if isStruct(ft) {
			if base.S == "|FRESH|" {
				return base, ft, true
			}
			return f.vc.env.subRef(bt, a.Field, base), ft, true
		}
		// scalar field: report as a one-field pseudo struct via marker type
		return base, fieldMarker{bt, a.Field}, true
	}
	return Term{}, nil, false
}

// fieldMarker designates a single scalar field of a struct type.
type fieldMarker struct {
	owner types.Type
	field int
}

func (fieldMarker) Underlying() types.Type { return nil }
func (fieldMarker) String() string         { return "fieldMarker" }

func (f *Frame) collectFieldHeaps(ref Term, t types.Type, add func(hn string, hs Sort, r Term)) {
	env := f.vc.env
	if fm, ok := t.(fieldMarker); ok {
		hn, hs := env.fieldHeap(fm.owner, fm.field)
		add(hn, hs, ref)
		return
	}
	st, ok := t.Underlying().(*types.Struct)
	if !ok {
		return
	}
	for i := 0; i < st.NumFields(); i++ {
		ft := st.Field(i).Type()
		if isStruct(ft) {
			if ref.S == "|FRESH|" {
				f.collectFieldHeaps(ref, ft, add)
			} else {
				f.collectFieldHeaps(env.subRef(t, i, ref), ft, add)
			}
			continue
		}
		hn, hs := env.fieldHeap(t, i)
		add(hn, hs, ref)
	}
}
