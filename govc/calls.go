package main

// Calls: builtins, contracts, inlining, interface dispatch, function values.

import (
	"fmt"
	"go/types"
	"os"
	"strings"

	"golang.org/x/tools/go/ssa"
)

const maxInlineDepth = 8

func (p *Prog) ifaceContract(it types.Type, method string) *Contract {
	key := "iface::" + typeKey(it) + "." + method
	if c, ok := p.cs.Funcs[key]; ok {
		return c
	}
	// embedded interfaces: look for a contract on an embedded interface type
	if iface, ok := it.Underlying().(*types.Interface); ok {
		for i := 0; i < iface.NumEmbeddeds(); i++ {
			et := iface.EmbeddedType(i)
			if _, isI := et.Underlying().(*types.Interface); isI {
				if c := p.ifaceContract(et, method); c != nil {
					return c
				}
			}
		}
	}
	return nil
}

func (p *Prog) functypeContract(t types.Type) *Contract {
	if c, ok := p.cs.Funcs["functype::"+typeKey(t)]; ok {
		return c
	}
	return nil
}

// methodOf finds the SSA function implementing method m for concrete type t.
func (p *Prog) methodOf(t types.Type, m *types.Func) *ssa.Function {
	sel := p.prog.MethodSets.MethodSet(t).Lookup(m.Pkg(), m.Name())
	if sel == nil {
		return nil
	}
	return p.prog.MethodValue(sel)
}

func (f *Frame) callOrdinal(name string) int {
	// ordinal among call sites with this callee name in source (block) order
	return 0
}

// execCall executes a call instruction; result is stored under `res` (may be nil).
func (f *Frame) execCall(st *State, in ssa.Instruction, c *ssa.CallCommon, res ssa.Value) *State {
	vc := f.vc
	var args []Value
	for _, a := range c.Args {
		v := f.val(a)
		args = append(args, v)
	}
	setRes := func(vals []Value) {
		if res == nil {
			return
		}
		if c.Signature().Results().Len() == 1 {
			if len(vals) == 1 {
				f.regs[res] = vals[0]
			}
		} else {
			f.regs[res] = Value{Tuple: vals}
		}
	}
	vc.runAnchors(f, st, in, false)
	var out *State
	var vals []Value
	switch {
	case vc.callAsFor(in) != nil:
		out, vals = f.callModel(st, in, vc.callAsFor(in), c)
	case c.IsInvoke():
		recv := f.val(c.Value)
		out, vals = f.callInvoke(st, in, c, recv, args)
	default:
		switch v := c.Value.(type) {
		case *ssa.Builtin:
			out, vals = f.callBuiltin(st, in, v, c, args)
		case *ssa.Function:
			out, vals = f.callFunction(st, in, v, nil, args, c)
		case *ssa.MakeClosure:
			cv := f.val(v)
			out, vals = f.callFunction(st, in, cv.Fn, cv.Bindings, args, c)
		default:
			fv := f.val(c.Value)
			if fv.Fn != nil {
				out, vals = f.callFunction(st, in, fv.Fn, fv.Bindings, args, c)
			} else {
				out, vals = f.callDynamic(st, in, c, fv, args)
			}
		}
	}
	if out == nil {
		return nil
	}
	setRes(vals)
	vc.runAnchors(f, out, in, true)
	return out
}

// runAnchors executes ghost statements / asserts attached to a call anchor.
func (vc *VC) runAnchors(f *Frame, st *State, in ssa.Instruction, after bool) {
	if vc.c == nil || (len(vc.c.Ghosts) == 0 && len(vc.c.Asserts) == 0) {
		return
	}
	if !f.top {
		// anchors also apply inside closures of the function under contract (e.g. a sync.Once body), not in other inlined functions
		isClosure := false
		for p := f.fn.Parent(); p != nil; p = p.Parent() {
			if p == vc.fn {
				isClosure = true
			}
		}
		if !isClosure {
			return
		}
	}
	name, ord, ok := vc.anchorNameOrd(in)
	if !ok {
		return
	}
	for _, as := range vc.c.Asserts {
		if as.Anchor.Callee == name && as.Anchor.Ordinal == ord && as.After == after {
			vc.anchorHit(as.Anchor.Callee, as.Anchor.Ordinal, as.After)
			sc := vc.entryScope()
			sc.st, sc.frame = st, f
			t, ok := vc.trClause(sc, as.C)
			if ok {
				vc.oblige(st, "assert", fmt.Sprintf("call:%s#%d", name, ord), t, clauseProps(vc.c, as.C), "assertion at call anchor: "+as.C.Src, in.Pos())
				vc.assumeIn(st, t)
			}
		}
	}
	for _, g := range vc.c.Ghosts {
		if g.Anchor.Callee == name && g.Anchor.Ordinal == ord && g.After == after {
			vc.anchorHit(g.Anchor.Callee, g.Anchor.Ordinal, g.After)
			vc.ghostAt = in
			vc.execGhost(f, st, g)
			vc.ghostAt = nil
		}
	}
}

func (vc *VC) execGhost(f *Frame, st *State, g *GhostStmt) {
	sc := vc.entryScope()
	sc.st, sc.frame = st, f
	rhs, rhsT, ok := vc.trExpr(sc, g.RHS, "ghost rhs")
	if !ok {
		return
	}
	// lhs: x.ghostfield  or  x.ghostfield[k]
	lhs := g.LHS
	var key *Term
	if ix, isIx := lhs.(EIndex); isIx {
		k, _, ok := vc.trExpr(sc, ix.I, "ghost index")
		if !ok {
			return
		}
		key = &k
		lhs = ix.X
	}
	fe, isField := lhs.(EField)
	if !isField {
		vc.specErrors = append(vc.specErrors, "ghost statement: lhs must be a ghost field: "+g.Src)
		return
	}
	obj, t, ok := vc.trExpr(sc, fe.X, "ghost lhs")
	if !ok {
		return
	}
	gf := vc.p.ghostField(t, fe.Name)
	if gf == nil {
		vc.specErrors = append(vc.specErrors, "ghost statement: unknown ghost field "+fe.Name)
		return
	}
	if rhsT == tNil {
		rhs = vc.env.Zero(gf.typ)
	}
	// a ghost update is a write like any other: it must stay inside the declared frame
	if vc.ghostAt != nil {
		vc.checkFrame(st, gf.heap, gf.sort, obj, vc.ghostAt)
	}
	h := st.Heap(vc, gf.heap, gf.sort)
	if key != nil {
		st.SetHeap(gf.heap, Store(h, obj, Store(Select(h, obj), *key, rhs)))
	} else {
		st.SetHeap(gf.heap, Store(h, obj, rhs))
	}
}

// ---- builtins -------------------------------------------------------------------

func (f *Frame) callBuiltin(st *State, in ssa.Instruction, b *ssa.Builtin, c *ssa.CallCommon, args []Value) (*State, []Value) {
	vc := f.vc
	env := vc.env
	switch b.Name() {
	case "len":
		a := args[0].T
		switch u := c.Args[0].Type().Underlying().(type) {
		case *types.Basic:
			return st, []Value{{T: SLen(a)}}
		case *types.Slice:
			return st, []Value{{T: SlLen(a)}}
		case *types.Map:
			return st, []Value{{T: App(SInt, "maplen", a)}}
		case *types.Pointer:
			if arr, ok := u.Elem().Underlying().(*types.Array); ok {
				return st, []Value{{T: IntLit(arr.Len())}}
			}
		}
	case "cap":
		if _, ok := c.Args[0].Type().Underlying().(*types.Slice); ok {
			return st, []Value{{T: SlCap(args[0].T)}}
		}
	case "append":
		return f.builtinAppend(st, in, c, args)
	case "copy":
		return f.builtinCopy(st, in, c, args)
	case "delete":
		m, k := args[0].T, args[1].T
		dn, _, ds, _ := env.mapHeaps(c.Args[0].Type())
		vc.checkFrame(st, dn, ds, m, in)
		dh := st.Heap(vc, dn, ds)
		st.SetHeap(dn, Ite(Eq(m, IntLit(0)), dh, Store(dh, m, Store(Select(dh, m), k, False))))
		_, vn, _, vs := env.mapHeaps(c.Args[0].Type())
		vh := st.Heap(vc, vn, vs)
		zero := env.Zero(c.Args[0].Type().Underlying().(*types.Map).Elem())
		st.SetHeap(vn, Ite(Eq(m, IntLit(0)), vh, Store(vh, m, Store(Select(vh, m), k, zero))))
		return st, nil
	case "print", "println":
		return st, nil
	case "recover":
		r := vc.freshConst("recovered", SIface)
		return st, []Value{{T: r}}
	case "ssa:wrapnilchk":
		vc.oblige(st, "nil", vc.anchorOf(in), Not(Eq(args[0].T, IntLit(0))), nil, "nil receiver in method wrapper", in.Pos())
		return st, []Value{args[0]}
	case "ssa:deferstack":
		return st, []Value{{T: IntLit(0)}}
	case "min", "max":
		a, bb := args[0].T, args[1].T
		if b.Name() == "min" {
			return st, []Value{{T: Ite(Le(a, bb), a, bb)}}
		}
		return st, []Value{{T: Ite(Le(a, bb), bb, a)}}
	}
	vc.unsupported("builtin %s", b.Name())
	var vals []Value
	for i := 0; i < c.Signature().Results().Len(); i++ {
		vals = append(vals, Value{T: vc.freshConst("bi", env.SortOf(c.Signature().Results().At(i).Type()))})
	}
	return st, vals
}

// elemHeaps lists the heaps holding elements of type elem, with the function
// mapping an element reference to the index used in that heap and its inverse.
type elemHeap struct {
	name string
	sort Sort
	sub  func(Term) Term
	inv  func(Term) Term
}

func (vc *VC) elemHeaps(elem types.Type) []elemHeap {
	env := vc.env
	var out []elemHeap
	var collect func(t types.Type, sub, inv func(Term) Term)
	collect = func(t types.Type, sub, inv func(Term) Term) {
		if s, ok := t.Underlying().(*types.Struct); ok {
			for i := 0; i < s.NumFields(); i++ {
				i := i
				ft := s.Field(i).Type()
				if isStruct(ft) {
					name := env.subRef(t, i, IntLit(0)) // ensure declared
					_ = name
					fname := "sub_" + sanitize(typeKey(t)) + "." + sanitize(s.Field(i).Name())
					collect(ft, func(r Term) Term { return env.subRef(t, i, sub(r)) }, func(r Term) Term { return inv(App(SInt, fname+"_inv", r)) })
					continue
				}
				hn, hs := env.fieldHeap(t, i)
				out = append(out, elemHeap{hn, hs, sub, inv})
			}
			return
		}
		hn, hs := env.elemHeap(t)
		out = append(out, elemHeap{hn, hs, sub, inv})
	}
	id := func(r Term) Term { return r }
	collect(elem, id, id)
	return out
}

// builtinAppend models append(s, e...) with capacity: in place when
// len(s)+len(e) <= cap(s), otherwise into a fresh array.
func (f *Frame) builtinAppend(st *State, in ssa.Instruction, c *ssa.CallCommon, args []Value) (*State, []Value) {
	vc := f.vc
	s, e := args[0].T, args[1].T
	st0, ok := c.Args[0].Type().Underlying().(*types.Slice)
	if !ok {
		vc.unsupported("append on %s", typeKey(c.Args[0].Type()))
		return st, []Value{{T: vc.freshConst("app", SSlice)}}
	}
	elem := st0.Elem()
	var n Term
	eIsString := false
	if b, isB := c.Args[1].Type().Underlying().(*types.Basic); isB && b.Info()&types.IsString != 0 {
		n = SLen(e)
		eIsString = true
	} else {
		n = SlLen(e)
	}
	L := SlLen(s)
	newLen := Add(L, n)
	inplace := vc.freshConst("app.inplace", SBool)
	vc.assumeIn(st, Eq(inplace, Le(newLen, SlCap(s))))
	fresh := f.allocRef(st, types.NewArray(elem, 0))
	ncap := vc.freshConst("app.cap", SInt)
	vc.assumeIn(st, And(Le(newLen, ncap), Le(ncap, BigLit("72057594037927936"))))
	resArr := Ite(inplace, SlArr(s), fresh)
	resOff := Ite(inplace, SlOff(s), IntLit(0))
	resCap := Ite(inplace, SlCap(s), ncap)
	// append(s) with nothing to add returns s itself (also for nil)
	res := vc.freshConst("app", SSlice)
	vc.assumeIn(st, Eq(res, Ite(Eq(n, IntLit(0)), s, MkSlice(resArr, resOff, newLen, resCap))))
	// element references of the result in terms of those of the source
	vc.assumeIn(st, Term{fmt.Sprintf("(forall ((k Int)) (! (= (sidx %s k) (ite (or %s (= %s 0)) (sidx %s k) (elemref %s k))) :pattern ((sidx %s k))))", res.S, inplace.S, n.S, s.S, fresh.S, res.S), SBool})
	A := vc.freshConst("app.arr", SInt)
	O := vc.freshConst("app.off", SInt)
	vc.assumeIn(st, And(Eq(A, resArr), Eq(O, resOff)))
	for _, h := range vc.elemHeaps(elem) {
		old := st.Heap(vc, h.name, h.sort)
		if (!vc.allowAll || vc.ownFresh()) && vc.entry != nil {
			alts := []Term{Not(inplace), Eq(n, IntLit(0)), App(SBool, ">", Base(SlArr(s)), vc.entry.top)}
			for _, m := range vc.modTop {
				if m.heap == h.name {
					alts = append(alts, m.member(h.sub(SIdx(s, L))))
				}
			}
			vc.oblige(st, "frame", vc.anchorOf(in)+":"+h.name, Or(alts...), vc.frameProps(), "in-place append writes into a backing array outside the declared frame", in.Pos())
		}
		nw := vc.freshConst(h.name, h.sort)
		r := Term{"r", SInt}
		eref := h.inv(r)
		idx := App(SInt, "elem_idx", eref)
		isElemOf := func(arr Term) Term { return And(Eq(h.sub(eref), r), Eq(eref, ElemRef(arr, idx))) }
		j := Sub(Sub(idx, O), L) // position within e
		var src Term
		if eIsString {
			src = App(SInt, "sat", e, j)
		} else {
			src = Select(old, h.sub(SIdx(e, j)))
		}
		condNew := And(isElemOf(A), Le(Add(O, L), idx), Lt(idx, Add(Add(O, L), n)))
		condCopy := And(Not(inplace), isElemOf(fresh), Le(IntLit(0), idx), Lt(idx, L))
		cp := Select(old, h.sub(SIdx(s, idx)))
		body := Eq(Select(nw, r), Ite(condNew, src, Ite(condCopy, cp, Select(old, r))))
		vc.assumeIn(st, Term{fmt.Sprintf("(forall ((r Int)) (! %s :pattern ((select %s r))))", body.S, nw.S), SBool})
		st.SetHeap(h.name, nw)
	}
	return st, []Value{{T: res}}
}

func (f *Frame) builtinCopy(st *State, in ssa.Instruction, c *ssa.CallCommon, args []Value) (*State, []Value) {
	vc := f.vc
	d, s := args[0].T, args[1].T
	ds, ok := c.Args[0].Type().Underlying().(*types.Slice)
	if !ok {
		vc.unsupported("copy to non-slice")
		return st, []Value{{T: vc.freshConst("cp", SInt)}}
	}
	var sl Term
	isStr := false
	if b, isB := c.Args[1].Type().Underlying().(*types.Basic); isB && b.Info()&types.IsString != 0 {
		sl = SLen(s)
		isStr = true
	} else {
		sl = SlLen(s)
	}
	n := vc.freshConst("copy.n", SInt)
	vc.assumeIn(st, Eq(n, Ite(Le(SlLen(d), sl), SlLen(d), sl)))
	for _, h := range vc.elemHeaps(ds.Elem()) {
		old := st.Heap(vc, h.name, h.sort)
		if (!vc.allowAll || vc.ownFresh()) && vc.entry != nil {
			alts := []Term{Eq(n, IntLit(0)), App(SBool, ">", Base(SlArr(d)), vc.entry.top)}
			for _, m := range vc.modTop {
				if m.heap == h.name {
					alts = append(alts, m.member(h.sub(SIdx(d, IntLit(0)))))
				}
			}
			vc.oblige(st, "frame", vc.anchorOf(in)+":"+h.name, Or(alts...), vc.frameProps(), "copy writes outside the declared frame", in.Pos())
		}
		nw := vc.freshConst(h.name, h.sort)
		r := Term{"r", SInt}
		eref := h.inv(r)
		idx := App(SInt, "elem_idx", eref)
		j := Sub(idx, SlOff(d))
		var src Term
		if isStr {
			src = App(SInt, "sat", s, j)
		} else {
			src = Select(old, h.sub(SIdx(s, j)))
		}
		cond := And(Eq(h.sub(eref), r), Eq(eref, ElemRef(SlArr(d), idx)), Le(SlOff(d), idx), Lt(idx, Add(SlOff(d), n)))
		body := Eq(Select(nw, r), Ite(cond, src, Select(old, r)))
		vc.assumeIn(st, Term{fmt.Sprintf("(forall ((r Int)) (! %s :pattern ((select %s r))))", body.S, nw.S), SBool})
		st.SetHeap(h.name, nw)
	}
	return st, []Value{{T: n}}
}

// ---- functions --------------------------------------------------------------------

func (f *Frame) inStack(fn *ssa.Function) bool {
	for fr := f; fr != nil; fr = fr.parent {
		if fr.fn == fn {
			return true
		}
	}
	return false
}

func hasLoop(fn *ssa.Function) bool {
	for _, b := range fn.Blocks {
		for _, s := range b.Succs {
			if s.Dominates(b) {
				return true
			}
		}
	}
	return false
}

func (f *Frame) callFunction(st *State, in ssa.Instruction, fn *ssa.Function, bindings []Value, args []Value, c *ssa.CallCommon) (*State, []Value) {
	vc := f.vc
	if sp := f.specialCall(st, in, fn, args, c); sp != nil {
		return sp.st, sp.vals
	}
	ct := vc.p.contractFor(fn)
	if os.Getenv("GOVC_DEBUG") != "" {
		fmt.Fprintf(os.Stderr, "call %s key=%s short=%s synthetic=%q contract=%v\n", fn.String(), vc.p.funcKey(fn), shortFuncName(fn), fn.Synthetic, ct != nil)
	}
	if ct != nil && !(ct.Inline && !f.inStack(fn)) {
		if fn.Signature.Recv() != nil && isPointer(fn.Signature.Recv().Type()) && len(args) > 0 && vc.p.inModule(fn) {
			vc.oblige(st, "nil", vc.anchorOf(in), Not(Eq(args[0].T, IntLit(0))), nil, "nil receiver for "+shortFuncName(fn), in.Pos())
		}
		f.pendingBindings = bindings
		return f.applyContract(st, in, ct, fn.Signature, nil, args, shortFuncName(fn), fn)
	}
	if vc.p.inModule(fn) && len(fn.Blocks) > 0 && !hasLoop(fn) && !f.inStack(fn) && f.depth < maxInlineDepth {
		return f.inline(st, in, fn, bindings, args)
	}
	if vc.p.inModule(fn) && hasLoop(fn) && !f.inStack(fn) && f.depth < maxInlineDepth {
		if base, ok := vc.canAdopt(fn); ok {
			vc.note("helper %s (no contract) is inlined; its loops are verified against the loop contracts %d.. of %s", fn.Name(), base, vc.funcName())
			return f.inlineAdopt(st, in, fn, bindings, args, base)
		}
	}
	if fn.Synthetic != "" && len(fn.Blocks) > 0 && !hasLoop(fn) && !f.inStack(fn) && f.depth < maxInlineDepth {
		// method wrappers / bound-method closures of external types
		return f.inline(st, in, fn, bindings, args)
	}
	if !vc.p.inModule(fn) && valueOnlySig(fn.Signature) {
		// an external function that receives values only (numbers, booleans, strings, structs of those) cannot reach
		// the module's objects: no effect on tracked state, result unconstrained (listed in the evidence)
		name := shortFuncName(fn)
		vc.note("call to external %s (no contract) takes values only: treated as effect-free, result unconstrained", name)
		vc.trustedUsed["external function without contract, value arguments only (effect-free, result unconstrained): "+name] = true
		var vals []Value
		for i := 0; i < fn.Signature.Results().Len(); i++ {
			t := fn.Signature.Results().At(i).Type()
			v := vc.freshConst("r."+name, vc.env.SortOf(t))
			if !isStruct(t) {
				f.factsOf(st, v, t)
			}
			vals = append(vals, Value{T: v})
		}
		return st, vals
	}
	return f.havocCall(st, in, fn.Signature, shortFuncName(fn))
}

// valueOnlySig: every parameter (and the receiver) is a number, boolean, string, or a struct/array of those.
func valueOnlySig(sig *types.Signature) bool {
	var ok func(t types.Type, depth int) bool
	ok = func(t types.Type, depth int) bool {
		if depth > 4 {
			return false
		}
		switch u := t.Underlying().(type) {
		case *types.Basic:
			return u.Kind() != types.UnsafePointer
		case *types.Struct:
			for i := 0; i < u.NumFields(); i++ {
				if !ok(u.Field(i).Type(), depth+1) {
					return false
				}
			}
			return true
		case *types.Array:
			return ok(u.Elem(), depth+1)
		}
		return false
	}
	if sig.Recv() != nil && !ok(sig.Recv().Type(), 0) {
		return false
	}
	for i := 0; i < sig.Params().Len(); i++ {
		if !ok(sig.Params().At(i).Type(), 0) {
			return false
		}
	}
	return true
}

func (f *Frame) inlineAdopt(st *State, in ssa.Instruction, fn *ssa.Function, bindings []Value, args []Value, base int) (*State, []Value) {
	vc := f.vc
	nf := vc.newFrame(fn, f)
	nf.params = args
	nf.freeVars = bindings
	nf.entry = st
	nf.adoptBase = base
	for i, prm := range fn.Params {
		if i < len(args) && prm.Name() != "" && prm.Name() != "_" {
			nf.vars[prm.Name()] = scopeVar{args[i].T, prm.Type()}
		}
	}
	vc.inlinedFns[vc.p.funcKey(fn)] = true
	out, vals, ok := nf.execBody(st)
	if !ok {
		return nil, nil
	}
	return out, vals
}

func (f *Frame) inline(st *State, in ssa.Instruction, fn *ssa.Function, bindings []Value, args []Value) (*State, []Value) {
	vc := f.vc
	nf := vc.newFrame(fn, f)
	nf.params = args
	nf.freeVars = bindings
	nf.entry = st
	vc.inlinedFns[vc.p.funcKey(fn)] = true
	out, vals, ok := nf.execBody(st)
	if !ok {
		return nil, nil
	}
	return out, vals
}

// havocCall: unknown callee — everything reachable may change.
func (f *Frame) havocCall(st *State, in ssa.Instruction, sig *types.Signature, name string) (*State, []Value) {
	vc := f.vc
	vc.note("call to %s has no contract: heap havocked, result unconstrained", name)
	vc.missing[name] = true
	if !vc.allowAll && vc.entry != nil {
		vc.oblige(st, "frame", vc.anchorOf(in)+":*", False, vc.frameProps(), "call to "+name+" without contract may modify anything", in.Pos())
	}
	vc.env.fresh++
	st.gen = vc.env.fresh
	st.heaps = vc.keepPrivate(st.heaps)
	ntop := vc.freshConst("top", SInt)
	vc.assumeIn(st, Le(st.top, ntop))
	st.top = ntop
	var vals []Value
	for i := 0; i < sig.Results().Len(); i++ {
		t := sig.Results().At(i).Type()
		v := vc.freshConst("r."+name, vc.env.SortOf(t))
		if !isStruct(t) {
			f.factsOf(st, v, t)
		}
		vals = append(vals, Value{T: v})
	}
	return st, vals
}

// applyContract: assert pre, havoc modifies, assume post.
func (f *Frame) applyContract(st *State, in ssa.Instruction, ct *Contract, sig *types.Signature, recvT types.Type, args []Value, name string, fn *ssa.Function) (*State, []Value) {
	vc := f.vc
	vc.calledContracts[name] = true
	if ct.Trusted {
		vc.trustedUsed["contract "+name] = true
	}
	pkg := vc.p.typesPkg(ct.PkgPath)
	if ct.PkgPath == "" && fn != nil {
		pkg = vc.pkgOf(fn)
	}
	if pkg == nil {
		pkg = vc.pkgOf(vc.fn)
	}
	pre := st.clone()
	sc := &Scope{vc: vc, pkg: pkg, vars: map[string]scopeVar{}, st: pre, old: pre}
	names, typs := contractParamNames(ct, sig, recvT)
	if len(names) != len(args) {
		vc.unsupported("contract %s: %d parameter names for %d arguments", name, len(names), len(args))
		return f.havocCall(st, in, sig, name)
	}
	for i, n := range names {
		if n != "" && n != "_" {
			sc.vars[n] = scopeVar{args[i].T, typs[i]}
		}
	}
	if ct.RecvAlias != "" && len(args) > 0 && sig.Recv() != nil {
		sc.vars[ct.RecvAlias] = scopeVar{args[0].T, typs[0]}
	}
	if fn != nil && len(fn.Params) == len(args) {
		for i, prm := range fn.Params {
			if old := vc.p.contractName(fn, prm.Name()); old != prm.Name() {
				if _, taken := sc.vars[old]; !taken {
					sc.vars[old] = scopeVar{args[i].T, typs[i]}
				}
			}
		}
	}
	// a closure's contract speaks about its captured variables by name: their content when the closure is called
	if fn != nil && len(fn.FreeVars) > 0 && len(f.pendingBindings) == len(fn.FreeVars) {
		for i, fv := range fn.FreeVars {
			elem := fv.Type().Underlying().(*types.Pointer).Elem()
			if _, taken := sc.vars[fv.Name()]; !taken {
				sc.vars[fv.Name()] = scopeVar{f.load(pre, f.pendingBindings[i], elem), elem}
			}
			if old := vc.p.contractName(fn, fv.Name()); old != fv.Name() {
				if _, taken := sc.vars[old]; !taken {
					sc.vars[old] = scopeVar{f.load(pre, f.pendingBindings[i], elem), elem}
				}
			}
		}
	}
	f.pendingBindings = nil
	anchor := "exit"
	if in != nil {
		anchor = vc.anchorOf(in)
	}
	// preconditions
	for _, r := range ct.Requires {
		parts, ok := vc.trGoal(sc, r)
		if ok {
			for _, g := range parts {
				vc.oblige(st, "pre", anchor+":"+r.Name+g.label, g.t, nil, "precondition of "+name+": "+g.src, posOf(in))
			}
			if t, ok := vc.trClause(sc, r); ok {
				vc.assumeIn(st, t)
			}
		}
	}
	// recursion variant: caller and callee both carry a function-level `decreases` clause
	if fn != nil && ct.Decreases != nil && vc.c != nil && vc.c.Decreases != nil && vc.mayReach(fn, vc.fn) {
		callee, ok1 := vc.trClause(sc, ct.Decreases)
		caller, ok2 := vc.trClause(vc.entryScope(), vc.c.Decreases)
		if ok1 && ok2 {
			vc.oblige(st, "dec", anchor+":variant", And(Le(IntLit(0), callee), Lt(callee, caller)), clauseProps(vc.c, vc.c.Decreases),
				"recursion variant decreases at the call of "+name+": "+ct.Decreases.Src+" < "+vc.c.Decreases.Src, posOf(in))
		}
	} else if fn != nil && vc.fn != nil && vc.c != nil && vc.c.Decreases != nil && ct.Decreases == nil && vc.mayReach(fn, vc.fn) {
		vc.specErrors = append(vc.specErrors, "recursion through "+name+", which has no `decreases` clause, although "+vc.funcName()+" declares one")
	}
	// panics
	var panicConds []Term
	for _, pc := range ct.Panics {
		t, ok := vc.trClause(sc, pc)
		if ok {
			panicConds = append(panicConds, t)
		}
	}
	if len(panicConds) > 0 {
		cond := Or(panicConds...)
		var allowed Term = False
		if vc.c != nil && len(vc.c.Panics) > 0 {
			var alts []Term
			for _, pc := range vc.c.Panics {
				t, ok := vc.trClause(vc.entryScope(), pc)
				if ok {
					alts = append(alts, t)
				}
			}
			allowed = Or(alts...)
		}
		if !vc.recovers {
			vc.oblige(st, "panic", anchor, Implies(cond, allowed), nil, "callee "+name+" may panic here", posOf(in))
		}
		if ct.PanicsIff {
			vc.assumeIn(st, Not(cond))
		}
	}
	// modifies
	var byHeapDone []string
	if ct.ModAll {
		if !vc.allowAll && vc.entry != nil {
			vc.oblige(st, "frame", anchor+":*", False, vc.frameProps(), "callee "+name+" modifies *", posOf(in))
		}
		vc.env.fresh++
		st.gen = vc.env.fresh
		st.heaps = vc.keepPrivate(st.heaps)
	} else {
		mods := vc.evalMods(sc, ct)
		byHeap := map[string][]modLoc{}
		for _, m := range mods {
			byHeap[m.heap] = append(byHeap[m.heap], m)
		}
		for _, hn := range sortedKeys(byHeap) {
			ms := byHeap[hn]
			// caller frame: each designated location must be allowed in the caller too
			if !vc.allowAll && vc.entry != nil {
				vc.checkModSubset(st, ms, in, name)
			}
			old := st.Heap(vc, hn, ms[0].sort)
			nw := vc.freshConst(hn, ms[0].sort)
			ks := arrayKeySort(ms[0].sort)
			r := Term{"r", ks}
			var mem []Term
			for _, m := range ms {
				mem = append(mem, m.member(r))
			}
			guard := Not(Or(mem...))
			if ks == SInt {
				guard = And(guard, Le(Base(r), pre.top))
			} else if ks == SIface {
				guard = And(guard, Le(Base(IfVal(r)), pre.top))
			}
			vc.assumeIn(st, Term{fmt.Sprintf("(forall ((r %s)) (! (=> %s (= (select %s r) (select %s r))) :pattern ((select %s r))))", ks, guard.S, nw.S, old.S, nw.S), SBool})
			st.SetHeap(hn, nw)
		}
		for _, hn := range sortedKeys(byHeap) {
			if strings.HasPrefix(hn, "Mv_") {
				vc.mapWF(st, hn)
			}
			byHeapDone = append(byHeapDone, hn)
		}
	}
	if !ct.Pure || ct.Allocates {
		ntop := vc.freshConst("top", SInt)
		vc.assumeIn(st, Le(st.top, ntop))
		st.top = ntop
		for _, hn := range byHeapDone {
			vc.storedRefsAllocated(hn, st.heaps[hn], ntop)
		}
		// objects the callee may have allocated: their liveness is unknown to the caller unless ensured
		at := map[string]types.Type{}
		if ct.ModAll {
			// everything is havocked already
		} else if fn != nil && vc.p.inModule(fn) {
			for k, v := range vc.p.allocTypes(fn) {
				at[k] = v
			}
		}
		for i := 0; i < sig.Results().Len() && !ct.ModAll; i++ {
			vc.p.reachableStructs(sig.Results().At(i).Type(), at, 0)
		}
		for _, k := range sortedKeys(at) {
			hn, hs := vc.env.aliveHeap(at[k])
			old := st.Heap(vc, hn, hs)
			nw := vc.freshConst(hn, hs)
			vc.assumeIn(st, Term{fmt.Sprintf("(forall ((r Int)) (! (=> (<= (base r) %s) (= (select %s r) (select %s r))) :pattern ((select %s r))))", pre.top.S, nw.S, old.S, nw.S), SBool})
			vc.aliveBound(nw, ntop)
			st.SetHeap(hn, nw)
		}
		// ... and the references their fields hold are allocated by now (the caller keeps the heap value it had: the
		// content at addresses that were not allocated then is unconstrained, see storedRefsAllocated)
		done := map[string]bool{}
		for _, hn := range byHeapDone {
			done[hn] = true
		}
		for _, k := range sortedKeys(at) {
			stt, isS := at[k].Underlying().(*types.Struct)
			if !isS {
				continue
			}
			for i := 0; i < stt.NumFields(); i++ {
				ft := stt.Field(i).Type()
				if isStruct(ft) || isArray(ft) {
					continue
				}
				hn, hs := vc.env.fieldHeap(at[k], i)
				if done[hn] || arrayKeySort(hs) != SInt {
					continue
				}
				done[hn] = true
				vc.storedRefsAllocated(hn, st.Heap(vc, hn, hs), ntop)
			}
		}
	}
	// results
	var vals []Value
	post := &Scope{vc: vc, pkg: pkg, vars: map[string]scopeVar{}, st: st, old: pre}
	for k, v := range sc.vars {
		post.vars[k] = v
	}
	var argTerms []Term
	for _, a := range args {
		argTerms = append(argTerms, a.T)
	}
	for i := 0; i < sig.Results().Len(); i++ {
		rv := sig.Results().At(i)
		var v Term
		if ct.Pure && fn != nil {
			v = vc.pureFn(fn, i, argTerms)
		} else if ct.Pure {
			pname := fmt.Sprintf("pure_%s.r%d", sanitize(name), i)
			var as []Sort
			for _, a := range argTerms {
				as = append(as, a.Sort)
			}
			vc.env.DeclFun(pname, as, vc.env.SortOf(rv.Type()))
			v = App(vc.env.SortOf(rv.Type()), pname, argTerms...)
		} else {
			v = vc.freshConst("r."+name, vc.env.SortOf(rv.Type()))
		}
		if !isStruct(rv.Type()) {
			f.factsOf(st, v, rv.Type())
		}
		vals = append(vals, Value{T: v})
		rn := rv.Name()
		if i < len(ct.ResNames) {
			rn = ct.ResNames[i]
		}
		if rn != "" && rn != "_" {
			post.vars[rn] = scopeVar{v, rv.Type()}
		}
		post.vars[fmt.Sprintf("result%d", i)] = scopeVar{v, rv.Type()}
		if i == 0 {
			post.vars["result"] = scopeVar{v, rv.Type()}
		}
	}
	for _, e := range ct.Ensures {
		t, ok := vc.trClause(post, e)
		if ok {
			vc.assumeIn(st, t)
		}
	}
	if os.Getenv("GOVC_CALLCOVERS") != "" && in != nil {
		// development aid: a call whose pre-state is reachable but whose post-state is not means that the callee's
		// contract contradicts what the caller knows - everything after the call would be verified vacuously
		vc.addCover(pre, "before:"+anchor)
		vc.addCover(st, "after:"+anchor)
	}
	return st, vals
}

func posOf(in ssa.Instruction) (p tokenPos) {
	if in == nil {
		return 0
	}
	return in.Pos()
}

// checkModSubset: the callee's modifies locations must be permitted by the
// function under verification.
func (vc *VC) checkModSubset(st *State, ms []modLoc, in ssa.Instruction, callee string) {
	heap := ms[0].heap
	ks := arrayKeySort(ms[0].sort)
	r := vc.freshConst("modr", ks)
	var mem []Term
	for _, m := range ms {
		mem = append(mem, m.member(r))
	}
	var alts []Term
	if ks == SInt {
		alts = append(alts, App(SBool, ">", Base(r), vc.entry.top))
	} else if ks == SIface {
		alts = append(alts, App(SBool, ">", Base(IfVal(r)), vc.entry.top))
	}
	for _, m := range vc.modTop {
		if m.heap == heap {
			alts = append(alts, m.member(r))
		}
	}
	anchor := "exit"
	if in != nil {
		anchor = vc.anchorOf(in)
	}
	vc.oblige(st, "frame", anchor+":"+heap, Implies(Or(mem...), Or(alts...)), vc.frameProps(), "callee "+callee+" modifies "+heap+" outside the declared frame", posOf(in))
}

// ---- interface dispatch -------------------------------------------------------------

func (f *Frame) callInvoke(st *State, in ssa.Instruction, c *ssa.CallCommon, recv Value, args []Value) (*State, []Value) {
	vc := f.vc
	it := c.Value.Type()
	vc.oblige(st, "nil", vc.anchorOf(in), Not(Eq(IfTag(recv.T), IntLit(0))), nil, "method call on nil interface", in.Pos())
	vc.assumeIn(st, Not(Eq(IfTag(recv.T), IntLit(0))))
	if ic := vc.p.ifaceContract(it, c.Method.Name()); ic != nil {
		all := append([]Value{recv}, args...)
		return f.applyContract(st, in, ic, c.Signature(), it, all, typeKey(it)+"."+c.Method.Name(), nil)
	}
	if !vc.p.closedInterface(it) {
		return f.havocCall(st, in, c.Signature(), typeKey(it)+"."+c.Method.Name())
	}
	impls := vc.p.implementers(it)
	var outs []inEdge
	var results [][]Value
	for _, ct := range impls {
		fn := vc.p.methodOf(ct, c.Method)
		if fn == nil {
			continue
		}
		cond := Eq(IfTag(recv.T), IntLit(int64(vc.tagOf(ct))))
		bst := st.clone()
		bpc := vc.freshConst("pc.case", SBool)
		vc.assume(Eq(bpc, And(st.pc, cond)))
		bst.pc = bpc
		rv := Value{T: vc.env.unbox(ct, IfVal(recv.T))}
		all := append([]Value{rv}, args...)
		out, vals := f.callFunction(bst, in, fn, nil, all, c)
		if out == nil {
			continue
		}
		outs = append(outs, inEdge{out, out.pc})
		results = append(results, vals)
	}
	if len(outs) == 0 {
		return nil, nil
	}
	merged := vc.merge(outs, "invoke."+c.Method.Name())
	nres := c.Signature().Results().Len()
	vals := make([]Value, nres)
	for i := 0; i < nres; i++ {
		rt := c.Signature().Results().At(i).Type()
		v := vc.freshConst("inv."+c.Method.Name(), vc.env.SortOf(rt))
		for k, o := range outs {
			vc.assume(Implies(o.cond, Eq(v, results[k][i].T)))
		}
		vals[i] = Value{T: v}
	}
	return merged, vals
}

// callDynamic: call of a function value that is not statically known.
func (f *Frame) callDynamic(st *State, in ssa.Instruction, c *ssa.CallCommon, fv Value, args []Value) (*State, []Value) {
	vc := f.vc
	vc.oblige(st, "nil", vc.anchorOf(in), Not(Eq(fv.T, IntLit(0))), nil, "call of nil function value", in.Pos())
	if ds := vc.dispatchFor(in); ds != nil {
		return f.callDispatch(st, in, c, fv, args, ds)
	}
	return f.callDynamicPlain(st, in, c, fv, args)
}

func (vc *VC) dispatchFor(in ssa.Instruction) *DispatchSpec {
	if vc.c == nil || len(vc.c.Dispatch) == 0 {
		return nil
	}
	ci, ok := in.(ssa.CallInstruction)
	if !ok {
		return nil
	}
	name := vc.p.contractName(vc.fn, calleeName(ci.Common()))
	a := vc.anchorOf(in)
	ord := 0
	if j := strings.LastIndex(a, "#"); j >= 0 {
		fmt.Sscanf(a[j+1:], "%d", &ord)
	}
	for _, d := range vc.c.Dispatch {
		if d.Anchor.Callee == name && d.Anchor.Ordinal == ord {
			return d
		}
	}
	return nil
}

// methodByName resolves "(*T).M" / "T.M" / "F" in the package of the function under verification.
func (vc *VC) methodByName(name string) *ssa.Function {
	if fn, ok := vc.p.funcs[vc.pkgOf(vc.fn).Path()+"::"+name]; ok {
		return fn
	}
	return nil
}

// callDispatch: case split of a call through a function value over the bound method values named in a
// `dispatch` clause; the last case (none of them) uses the functype contract.
func (f *Frame) callDispatch(st *State, in ssa.Instruction, c *ssa.CallCommon, fv Value, args []Value, ds *DispatchSpec) (*State, []Value) {
	vc := f.vc
	vc.anchorHit("dispatch:"+ds.Anchor.Callee, ds.Anchor.Ordinal, false)
	var outs []inEdge
	var results [][]Value
	none := True
	code := App(SInt, "fn_code", fv.T)
	for _, tn := range ds.Targets {
		m := vc.methodByName(tn)
		if m == nil || m.Signature.Recv() == nil {
			vc.specErrors = append(vc.specErrors, "dispatch "+ds.Src+": no method "+tn)
			continue
		}
		obj, _ := m.Object().(*types.Func)
		if obj == nil {
			continue
		}
		cond := Eq(code, IntLit(int64(vc.boundTag(obj.FullName()))))
		none = And(none, Not(cond))
		bst := st.clone()
		bpc := vc.freshConst("pc.disp", SBool)
		vc.assume(Eq(bpc, And(st.pc, cond)))
		bst.pc = bpc
		rv := Value{T: App(SInt, "fn_recv", fv.T)}
		all := append([]Value{rv}, args...)
		out, vals := f.callFunction(bst, in, m, nil, all, c)
		if out == nil {
			continue
		}
		outs = append(outs, inEdge{out, out.pc})
		results = append(results, vals)
	}
	{
		bst := st.clone()
		bpc := vc.freshConst("pc.disp", SBool)
		vc.assume(Eq(bpc, And(st.pc, none)))
		bst.pc = bpc
		out, vals := f.callDynamicPlain(bst, in, c, fv, args)
		if out != nil {
			outs = append(outs, inEdge{out, out.pc})
			results = append(results, vals)
		}
	}
	if len(outs) == 0 {
		return nil, nil
	}
	merged := vc.merge(outs, "dispatch."+ds.Anchor.Callee)
	nres := c.Signature().Results().Len()
	vals := make([]Value, nres)
	for i := 0; i < nres; i++ {
		rt := c.Signature().Results().At(i).Type()
		v := vc.freshConst("disp."+ds.Anchor.Callee, vc.env.SortOf(rt))
		for k, o := range outs {
			vc.assume(Implies(o.cond, Eq(v, results[k][i].T)))
		}
		vals[i] = Value{T: v}
	}
	return merged, vals
}

func (f *Frame) callDynamicPlain(st *State, in ssa.Instruction, c *ssa.CallCommon, fv Value, args []Value) (*State, []Value) {
	vc := f.vc
	if ft := vc.p.functypeContract(c.Value.Type()); ft != nil {
		all := args
		names, _ := contractParamNames(ft, c.Signature(), nil)
		if len(ft.ParamNames) == len(args)+1 {
			// first name denotes the function value itself
			all = append([]Value{fv}, args...)
			_ = names
			return f.applyContractFV(st, in, ft, c, all)
		}
		return f.applyContract(st, in, ft, c.Signature(), nil, all, "functype "+typeKey(c.Value.Type()), nil)
	}
	return f.havocCall(st, in, c.Signature(), "func value "+typeKey(c.Value.Type()))
}

// applyContractFV applies a functype contract whose first parameter name binds
// the function value itself.
func (f *Frame) applyContractFV(st *State, in ssa.Instruction, ft *Contract, c *ssa.CallCommon, all []Value) (*State, []Value) {
	sig := c.Signature()
	vars := []*types.Var{types.NewVar(0, nil, ft.ParamNames[0], c.Value.Type())}
	for i := 0; i < sig.Params().Len(); i++ {
		vars = append(vars, sig.Params().At(i))
	}
	nsig := types.NewSignatureType(nil, nil, nil, types.NewTuple(vars...), sig.Results(), false)
	return f.applyContract(st, in, ft, nsig, nil, all, "functype "+typeKey(c.Value.Type()), nil)
}

func (vc *VC) callAsFor(in ssa.Instruction) *CallAs {
	if vc.c == nil || len(vc.c.CallAs) == 0 {
		return nil
	}
	ci, ok := in.(ssa.CallInstruction)
	if !ok {
		return nil
	}
	name := vc.p.contractName(vc.fn, calleeName(ci.Common()))
	a := vc.anchorOf(in)
	ord := 0
	if j := strings.LastIndex(a, "#"); j >= 0 {
		fmt.Sscanf(a[j+1:], "%d", &ord)
	}
	for _, ca := range vc.c.CallAs {
		if ca.Anchor.Callee == name && ca.Anchor.Ordinal == ord {
			return ca
		}
	}
	return nil
}

// callModel applies a named model contract at a call site (callback models).
func (f *Frame) callModel(st *State, in ssa.Instruction, ca *CallAs, c *ssa.CallCommon) (*State, []Value) {
	vc := f.vc
	m := vc.p.cs.Funcs["model::"+ca.Model]
	if m == nil {
		vc.specErrors = append(vc.specErrors, "unknown model "+ca.Model)
		return f.havocCall(st, in, c.Signature(), calleeName(c))
	}
	pkg := vc.p.typesPkg(m.PkgPath)
	var params, results []*types.Var
	for _, q := range m.ModelParams {
		t, err := vc.p.ResolveType(q.T, pkg)
		if err != nil {
			vc.specErrors = append(vc.specErrors, "model "+ca.Model+": "+err.Error())
			return f.havocCall(st, in, c.Signature(), calleeName(c))
		}
		params = append(params, types.NewVar(0, nil, q.Name, t))
	}
	for _, q := range m.ModelRes {
		t, err := vc.p.ResolveType(q.T, pkg)
		if err != nil {
			vc.specErrors = append(vc.specErrors, "model "+ca.Model+": "+err.Error())
			return f.havocCall(st, in, c.Signature(), calleeName(c))
		}
		results = append(results, types.NewVar(0, nil, q.Name, t))
	}
	if len(results) != c.Signature().Results().Len() || len(ca.Args) != len(params) {
		vc.specErrors = append(vc.specErrors, "model "+ca.Model+": arity mismatch at "+ca.Src)
		return f.havocCall(st, in, c.Signature(), calleeName(c))
	}
	sc := vc.entryScope()
	sc.st, sc.frame = st, f
	var args []Value
	for _, a := range ca.Args {
		t, _, ok := vc.trExpr(sc, a, "call-as argument")
		if !ok {
			return f.havocCall(st, in, c.Signature(), calleeName(c))
		}
		args = append(args, Value{T: t})
	}
	sig := types.NewSignatureType(nil, nil, nil, types.NewTuple(params...), types.NewTuple(results...), false)
	vc.trustedUsed["model "+ca.Model+" at "+vc.funcName()+" "+ca.Src] = true
	return f.applyContract(st, in, m, sig, nil, args, "model "+ca.Model, nil)
}

func anchorKey(callee string, ord int, after bool) string {
	return fmt.Sprintf("%s#%d/%v", callee, ord, after)
}

func (vc *VC) anchorHit(callee string, ord int, after bool) {
	if vc.anchorsHit == nil {
		vc.anchorsHit = map[string]bool{}
	}
	vc.anchorsHit[anchorKey(callee, ord, after)] = true
}

// checkAnchors turns every ghost statement / assertion whose call anchor does not occur in the code
// into a failed obligation: the assertion was established on the tree the contract was written for and
// can no longer be generated, so the property it carries is not established any more.
func (vc *VC) checkAnchors() {
	if vc.c == nil {
		return
	}
	when := func(after bool) string {
		if after {
			return "after"
		}
		return "before"
	}
	seen := map[string]bool{}
	for _, as := range vc.c.Asserts {
		k := anchorKey(as.Anchor.Callee, as.Anchor.Ordinal, as.After)
		if as.Anchor.Callee == "exit" || vc.anchorsHit[k] {
			continue
		}
		vc.oblige(vc.entry, "assert", fmt.Sprintf("call:%s#%d:missing:%s", as.Anchor.Callee, as.Anchor.Ordinal, as.C.Name), False, clauseProps(vc.c, as.C),
			fmt.Sprintf("assertion %s call %s#%d cannot be established: the call it is anchored to no longer occurs in the function: %s", when(as.After), as.Anchor.Callee, as.Anchor.Ordinal, as.C.Src), vc.fn.Pos())
	}
	for _, g := range vc.c.Ghosts {
		k := anchorKey(g.Anchor.Callee, g.Anchor.Ordinal, g.After)
		if g.Anchor.Callee == "exit" || vc.anchorsHit[k] || seen[k] {
			continue
		}
		seen[k] = true
		vc.oblige(vc.entry, "assert", fmt.Sprintf("call:%s#%d:missing:ghost", g.Anchor.Callee, g.Anchor.Ordinal), False, vc.c.Props,
			fmt.Sprintf("ghost update %s call %s#%d cannot be placed: the call it is anchored to no longer occurs in the function", when(g.After), g.Anchor.Callee, g.Anchor.Ordinal), vc.fn.Pos())
	}
	// every call site of a callee that the contract instruments (ghost update / assertion / model) must be instrumented:
	// a further, un-instrumented call of the same callee escapes what the contract accounts for
	instrumented := map[string]map[int]bool{}
	note := func(a Anchor) {
		if a.Callee == "exit" || strings.HasPrefix(a.Callee, "mapupdate") {
			return
		}
		if instrumented[a.Callee] == nil {
			instrumented[a.Callee] = map[int]bool{}
		}
		instrumented[a.Callee][a.Ordinal] = true
	}
	for _, as := range vc.c.Asserts {
		note(as.Anchor)
	}
	for _, g := range vc.c.Ghosts {
		note(g.Anchor)
	}
	for _, ca := range vc.c.CallAs {
		note(ca.Anchor)
	}
	if len(instrumented) > 0 && !vc.c.PartialAnchors {
		for _, b := range vc.fn.Blocks {
			for _, in := range b.Instrs {
				if _, isCall := in.(ssa.CallInstruction); !isCall {
					continue
				}
				n, o, ok := vc.anchorNameOrd(in)
				if !ok || instrumented[n] == nil || instrumented[n][o] {
					continue
				}
				vc.oblige(vc.entry, "assert", fmt.Sprintf("call:%s#%d:uninstrumented", n, o), False, vc.c.Props,
					fmt.Sprintf("call %s#%d is not covered by the contract: other calls of %s carry ghost updates / assertions, this one does not", n, o, n), in.Pos())
			}
		}
	}
	for _, d := range vc.c.Dispatch {
		if vc.anchorsHit[anchorKey("dispatch:"+d.Anchor.Callee, d.Anchor.Ordinal, false)] {
			continue
		}
		vc.oblige(vc.entry, "assert", fmt.Sprintf("call:%s#%d:missing:dispatch", d.Anchor.Callee, d.Anchor.Ordinal), False, vc.c.Props,
			fmt.Sprintf("dispatch %s cannot be placed: the call through the function value no longer occurs in the function", d.Src), vc.fn.Pos())
	}
}

// anchorNameOrd gives the (name, ordinal) under which ghost statements and assertions address an instruction.
func (vc *VC) anchorNameOrd(in ssa.Instruction) (string, int, bool) {
	name := ""
	switch ci := in.(type) {
	case ssa.CallInstruction:
		name = calleeName(ci.Common())
	case *ssa.MapUpdate:
		name = "mapupdate" // ghost/assert before|after mapupdate#k: the k-th map update of the function
	default:
		return "", 0, false
	}
	name = vc.p.contractName(vc.fn, name)
	a := vc.anchorOf(in) // call:name#k
	ord := 0
	if j := strings.LastIndex(a, "#"); j >= 0 {
		fmt.Sscanf(a[j+1:], "%d", &ord)
	}
	return name, ord, true
}

// ghostHeapsAt adds the ghost heaps that ghost statements anchored at `in` may write (by field name: an
// over-approximation that does not need a state).
func (vc *VC) ghostHeapsAt(in ssa.Instruction, heaps map[string]Sort) {
	if vc.c == nil || len(vc.c.Ghosts) == 0 {
		return
	}
	name, ord, ok := vc.anchorNameOrd(in)
	if !ok {
		return
	}
	for _, g := range vc.c.Ghosts {
		if g.Anchor.Callee != name || g.Anchor.Ordinal != ord {
			continue
		}
		lhs := g.LHS
		if ix, isIx := lhs.(EIndex); isIx {
			lhs = ix.X
		}
		fe, isField := lhs.(EField)
		if !isField {
			continue
		}
		for _, gi := range vc.p.ghosts {
			if gi.g.Name == fe.Name {
				heaps[gi.heap] = gi.sort
			}
		}
	}
}
