package main

// Translation of contract expressions to SMT terms in a symbolic state.

import (
	"fmt"
	"go/constant"
	"go/types"
	"strings"

	"golang.org/x/tools/go/ssa"
)

type scopeVar struct {
	T   Term
	Typ types.Type
}

type Scope struct {
	vc          *VC
	pkg         *types.Package
	vars        map[string]scopeVar // parameters (entry values), results, bound variables
	st          *State              // current state
	old         *State              // state for old(); nil = same as st
	pre         *State              // loop-entry state for pre()
	frame       *Frame              // for resolving local cells (loop invariants, asserts); may be nil
	freeFrame   *Frame              // closure frame whose captured variables are visible by name
	inOld       bool
	heapAbs     map[string]Term // define bodies: heap name -> bound variable
	heapUse     map[string]Sort // records heaps read (define analysis)
	bound       []string
	qvars       map[string]bool
	limited     map[string]bool // spec functions whose calls denote the limited (non-unfolding) synonym
	paramsFirst bool            // postconditions: parameter names denote entry values, other locals their final content
}

type specError struct{ msg string }

func (e specError) Error() string { return e.msg }

func sfail(f string, a ...interface{}) { panic(specError{fmt.Sprintf(f, a...)}) }

func (sc *Scope) clone() *Scope {
	n := *sc
	n.vars = map[string]scopeVar{}
	for k, v := range sc.vars {
		n.vars[k] = v
	}
	return &n
}

// heap returns the current term of heap `name`.
func (sc *Scope) heap(name string, s Sort) Term {
	if sc.heapAbs != nil {
		if sc.heapUse != nil {
			sc.heapUse[name] = s
		}
		if t, ok := sc.heapAbs[name]; ok {
			return t
		}
		// analysis pass: placeholder
		return Term{"|HEAP:" + name + "|", s}
	}
	st := sc.st
	if sc.inOld && sc.old != nil {
		st = sc.old
	}
	if name == "$top" {
		return st.top
	}
	return st.Heap(sc.vc, name, s)
}

// ResolveType turns a TypeExpr into a go/types type, resolving names in pkg.
func (p *Prog) ResolveType(te *TypeExpr, pkg *types.Package) (types.Type, error) {
	switch te.Kind {
	case "ptr":
		e, err := p.ResolveType(te.Elem, pkg)
		if err != nil {
			return nil, err
		}
		return types.NewPointer(e), nil
	case "slice":
		e, err := p.ResolveType(te.Elem, pkg)
		if err != nil {
			return nil, err
		}
		return types.NewSlice(e), nil
	case "map":
		k, err := p.ResolveType(te.Key, pkg)
		if err != nil {
			return nil, err
		}
		e, err := p.ResolveType(te.Elem, pkg)
		if err != nil {
			return nil, err
		}
		return types.NewMap(k, e), nil
	case "qual":
		tp := p.pkgByName[te.Pkg]
		if tp == nil {
			return nil, fmt.Errorf("unknown package %q", te.Pkg)
		}
		obj := tp.Scope().Lookup(te.Name)
		if tn, ok := obj.(*types.TypeName); ok {
			return tn.Type(), nil
		}
		return nil, fmt.Errorf("unknown type %s.%s", te.Pkg, te.Name)
	case "name":
		if te.Name == "interface{}" {
			return types.NewInterfaceType(nil, nil), nil
		}
		if pkg != nil {
			if obj := pkg.Scope().Lookup(te.Name); obj != nil {
				if tn, ok := obj.(*types.TypeName); ok {
					return tn.Type(), nil
				}
			}
		}
		if obj := types.Universe.Lookup(te.Name); obj != nil {
			if tn, ok := obj.(*types.TypeName); ok {
				return tn.Type(), nil
			}
		}
		return nil, fmt.Errorf("unknown type %q", te.Name)
	}
	return nil, fmt.Errorf("bad type expr")
}

func (sc *Scope) resolveType(te *TypeExpr) types.Type {
	t, err := sc.vc.p.ResolveType(te, sc.pkg)
	if err != nil {
		sfail("%v", err)
	}
	return t
}

var tInt = types.Typ[types.Int]
var tBool = types.Typ[types.Bool]
var tString = types.Typ[types.String]
var tNil = types.Typ[types.UntypedNil]

// Tr translates an expression; errors are returned as specError panics caught
// by TrClause.
func (sc *Scope) Tr(e Expr) (Term, types.Type) {
	env := sc.vc.env
	switch x := e.(type) {
	case EInt:
		if strings.HasPrefix(x.Val, "0x") {
			v := constant.MakeFromLiteral(x.Val, 5 /*token.INT*/, 0)
			return BigLit(v.ExactString()), tInt
		}
		return BigLit(x.Val), tInt
	case EStr:
		return env.StrLit(x.Val), tString
	case EBool:
		if x.Val {
			return True, tBool
		}
		return False, tBool
	case ENil:
		return IntLit(0), tNil
	case EIdent:
		return sc.trIdent(x.Name)
	case ETypeTag:
		t := sc.resolveType(x.T)
		return IntLit(int64(sc.vc.tagOf(t))), tInt
	case EUnary:
		switch x.Op {
		case "!":
			a, _ := sc.Tr(x.X)
			return Not(a), tBool
		case "-":
			a, t := sc.Tr(x.X)
			return App(SInt, "-", a), t
		case "*":
			a, t := sc.Tr(x.X)
			pt, ok := t.Underlying().(*types.Pointer)
			if !ok {
				sfail("deref of non-pointer %s", exprString(x.X))
			}
			return sc.load(a, pt.Elem()), pt.Elem()
		case "&":
			ref, rt, ok := sc.trRef(x.X)
			if !ok {
				sfail("& needs a struct-typed field reached through a pointer: %s", exprString(x.X))
			}
			return ref, types.NewPointer(rt)
		}
	case EBinary:
		return sc.trBinary(x)
	case EQuant:
		return sc.trQuant(x)
	case EField:
		return sc.trField(x)
	case EIndex:
		return sc.trIndex(x)
	case ESlice:
		return sc.trSlice(x)
	case EAssert:
		a, t := sc.Tr(x.X)
		if !isInterface(t) {
			sfail("type assertion on non-interface %s", exprString(x.X))
		}
		tt := sc.resolveType(x.T)
		if isInterface(tt) {
			return a, tt
		}
		return env.unbox(tt, IfVal(a)), tt
	case ECall:
		return sc.trCall(x)
	}
	sfail("cannot translate %s", exprString(e))
	return Term{}, nil
}

func (sc *Scope) trIdent(name string) (Term, types.Type) {
	// quantifier-bound variables shadow everything
	if sc.qvars[name] {
		if v, ok := sc.vars[name]; ok {
			return v.T, v.Typ
		}
	}
	if sc.paramsFirst {
		if v, ok := sc.vars[name]; ok {
			return v.T, v.Typ
		}
	}
	if sc.frame != nil && (name == "rangeexpr" || strings.HasPrefix(name, "rangeexpr#")) {
		// rangeexpr#k: the slice the k-th `for ... range <slice>` loop of the function iterates over
		if t, typ, ok := sc.frame.rangeExpr(name); ok {
			return t, typ
		}
		sfail("%s: no such range-over-slice loop (or its operand is not evaluated yet)", name)
	}
	if sc.frame != nil && !sc.inOld {
		if t, typ, ok := sc.frame.localByName(sc.st, name); ok {
			return t, typ
		}
		// a loop contract adopted by an inlined helper may still speak about variables of the function it was written for
		if sc.frame.adoptBase >= 0 {
			for pf := sc.frame.parent; pf != nil; pf = pf.parent {
				if t, typ, ok := pf.localByName(sc.st, name); ok {
					return t, typ
				}
			}
		}
	}
	if v, ok := sc.vars[name]; ok {
		return v.T, v.Typ
	}
	if ff := sc.freeFrame; ff != nil || sc.frame != nil {
		if ff == nil {
			ff = sc.frame
		}
		for i, fv := range ff.fn.FreeVars {
			if (fv.Name() == name || fv.Name() == sc.vc.p.curName(ff.fn, name)) && i < len(ff.freeVars) {
				elem := fv.Type().Underlying().(*types.Pointer).Elem()
				return sc.load(ff.freeVars[i].T, elem), elem
			}
		}
	}
	if sc.frame != nil && sc.inOld {
		sfail("old(%s): only parameters have entry values", name)
	}
	// package-level constants / variables
	if sc.pkg != nil {
		if obj := sc.pkg.Scope().Lookup(name); obj != nil {
			switch o := obj.(type) {
			case *types.Const:
				return sc.vc.constTerm(o.Val(), o.Type()), o.Type()
			case *types.Var:
				g := sc.vc.p.globalFor(o)
				if g != nil {
					ref := sc.vc.globalRef(g)
					return sc.load(ref, o.Type()), o.Type()
				}
			}
		}
	}
	sfail("unknown identifier %q", name)
	return Term{}, nil
}

func (vc *VC) constTerm(v constant.Value, t types.Type) Term {
	switch v.Kind() {
	case constant.Bool:
		if constant.BoolVal(v) {
			return True
		}
		return False
	case constant.String:
		return vc.env.StrLit(constant.StringVal(v))
	case constant.Int:
		if b, ok := t.Underlying().(*types.Basic); ok && b.Info()&types.IsFloat != 0 {
			return vc.floatConst(v.ExactString())
		}
		return BigLit(v.ExactString())
	case constant.Float:
		return vc.floatConst(v.ExactString())
	}
	return IntLit(0)
}

func (vc *VC) floatConst(s string) Term {
	if s == "0" {
		return Term{"float_zero", SFloat}
	}
	name := "flt_" + sanitize(s)
	vc.env.DeclFun(name, nil, SFloat)
	return Term{name, SFloat}
}

// load reads a value of type t at address/reference a in the scope's state.
func (sc *Scope) load(a Term, t types.Type) Term {
	env := sc.vc.env
	if st, ok := t.Underlying().(*types.Struct); ok {
		var fs []Term
		for i := 0; i < st.NumFields(); i++ {
			fs = append(fs, sc.loadField(a, t, i))
		}
		return env.structMk(t, fs)
	}
	hn, hs := env.cellHeap(t)
	return Select(sc.heap(hn, hs), a)
}

func (sc *Scope) loadField(obj Term, owner types.Type, i int) Term {
	env := sc.vc.env
	st := owner.Underlying().(*types.Struct)
	ft := st.Field(i).Type()
	if isStruct(ft) {
		return sc.load(env.subRef(owner, i, obj), ft)
	}
	hn, hs := env.fieldHeap(owner, i)
	return Select(sc.heap(hn, hs), obj)
}

func (sc *Scope) trField(x EField) (Term, types.Type) {
	env := sc.vc.env
	// package-qualified identifier?
	if id, ok := x.X.(EIdent); ok {
		if _, isVar := sc.vars[id.Name]; !isVar {
			if tp := sc.vc.p.pkgByName[id.Name]; tp != nil && (sc.frame == nil || !sc.frame.hasLocal(id.Name)) {
				obj := tp.Scope().Lookup(x.Name)
				switch o := obj.(type) {
				case *types.Const:
					return sc.vc.constTerm(o.Val(), o.Type()), o.Type()
				case *types.Var:
					if g := sc.vc.p.globalFor(o); g != nil {
						return sc.load(sc.vc.globalRef(g), o.Type()), o.Type()
					}
				}
				sfail("unknown %s.%s", id.Name, x.Name)
			}
		}
	}
	// ghost field of a struct embedded by value (e.g. w.writeHeaderOnce.fired)
	if ref, rt, ok := sc.trRef(x.X); ok {
		if gf := sc.vc.p.ghostField(rt, x.Name); gf != nil {
			return Select(sc.heap(gf.heap, gf.sort), ref), gf.typ
		}
	}
	a, t := sc.Tr(x.X)
	// ghost field?
	if gf := sc.vc.p.ghostField(t, x.Name); gf != nil {
		return Select(sc.heap(gf.heap, gf.sort), a), gf.typ
	}
	// real field (through pointer or struct value), including promoted fields
	base := t
	isPtr := false
	if pt, ok := t.Underlying().(*types.Pointer); ok {
		base = pt.Elem()
		isPtr = true
	}
	if _, ok := base.Underlying().(*types.Struct); !ok {
		sfail("%s has no field %s (type %s)", exprString(x.X), x.Name, typeKey(t))
	}
	obj, path, _ := types.LookupFieldOrMethod(base, true, nil, x.Name)
	if obj == nil && sc.pkg != nil {
		obj, path, _ = types.LookupFieldOrMethod(base, true, sc.pkg, x.Name)
	}
	if obj == nil {
		// try with the declaring package of the named type (unexported fields)
		if n, ok := base.(*types.Named); ok && n.Obj().Pkg() != nil {
			obj, path, _ = types.LookupFieldOrMethod(base, true, n.Obj().Pkg(), x.Name)
		}
	}
	fv, ok := obj.(*types.Var)
	if !ok || !fv.IsField() {
		if gf := sc.vc.p.ghostFieldDeep(base, x.Name); gf != nil && isPtr {
			// ghost field on an embedded struct reached through promotion
			cur := a
			ct := base
			for _, idx := range gf.path {
				cur = env.subRef(ct, idx, cur)
				ct = ct.Underlying().(*types.Struct).Field(idx).Type()
			}
			return Select(sc.heap(gf.g.heap, gf.g.sort), cur), gf.g.typ
		}
		sfail("%s has no field %s (type %s)", exprString(x.X), x.Name, typeKey(t))
	}
	cur := a
	ct := base
	curIsRef := isPtr
	for k, idx := range path {
		st := ct.Underlying().(*types.Struct)
		ft := st.Field(idx).Type()
		last := k == len(path)-1
		if curIsRef {
			if isStruct(ft) {
				if last {
					// struct-typed field reached by reference: return its value
					return sc.load(env.subRef(ct, idx, cur), ft), ft
				}
				cur = env.subRef(ct, idx, cur)
				ct = ft
				continue
			}
			v := sc.loadField(cur, ct, idx)
			if last {
				return v, ft
			}
			// pointer-typed embedded field
			pt, ok := ft.Underlying().(*types.Pointer)
			if !ok {
				sfail("cannot traverse field %s", st.Field(idx).Name())
			}
			cur, ct = v, pt.Elem()
			continue
		}
		// struct value
		v := env.structGet(ct, cur, idx)
		if last {
			return v, ft
		}
		if pt, ok := ft.Underlying().(*types.Pointer); ok {
			cur, ct, curIsRef = v, pt.Elem(), true
		} else {
			cur, ct = v, ft
		}
	}
	return cur, ct
}

// trRef translates an expression denoting a struct-typed field reached through
// a pointer into the reference of that embedded struct object.
func (sc *Scope) trRef(e Expr) (Term, types.Type, bool) {
	if id, isId := e.(EIdent); isId && sc.frame != nil && !sc.qvars[id.Name] {
		// a struct-typed local variable that lives in the heap (its address is taken): the object itself
		for _, a := range sc.frame.allAllocs() {
			if a.Comment != id.Name && a.Comment != sc.vc.p.curName(sc.frame.fn, id.Name) {
				continue
			}
			elem := a.Type().Underlying().(*types.Pointer).Elem()
			if isStruct(elem) && !sc.frame.scalarLocal(a) {
				if v, ok := sc.frame.regs[a]; ok {
					return v.T, elem, true
				}
			}
			break
		}
	}
	if id, isId := e.(EIdent); isId && !sc.qvars[id.Name] && sc.pkg != nil {
		// a struct-typed package-level variable: the object itself
		if _, isVar := sc.vars[id.Name]; !isVar && (sc.frame == nil || !sc.frame.hasLocal(id.Name)) {
			if o, isV := sc.pkg.Scope().Lookup(id.Name).(*types.Var); isV && isStruct(o.Type()) {
				if g := sc.vc.p.globalFor(o); g != nil {
					return sc.vc.globalRef(g), o.Type(), true
				}
			}
		}
	}
	f, ok := e.(EField)
	if !ok {
		return Term{}, nil, false
	}
	if id, isId := f.X.(EIdent); isId {
		if _, isVar := sc.vars[id.Name]; !isVar && sc.vc.p.pkgByName[id.Name] != nil && (sc.frame == nil || !sc.frame.hasLocal(id.Name)) {
			return Term{}, nil, false
		}
	}
	var a Term
	var t types.Type
	if r, rt, ok := sc.trRef(f.X); ok {
		a, t = r, types.NewPointer(rt)
	} else {
		a, t = sc.Tr(f.X)
	}
	pt, isPtr := t.Underlying().(*types.Pointer)
	if !isPtr || !isStruct(pt.Elem()) {
		return Term{}, nil, false
	}
	base := pt.Elem()
	var pkg *types.Package
	if n, isNamed := base.(*types.Named); isNamed {
		pkg = n.Obj().Pkg()
	}
	obj, path, _ := types.LookupFieldOrMethod(base, true, pkg, f.Name)
	fv, isVar := obj.(*types.Var)
	if !isVar || !fv.IsField() || !isStruct(fv.Type()) {
		return Term{}, nil, false
	}
	cur, ct := a, base
	for _, idx := range path {
		st := ct.Underlying().(*types.Struct)
		ft := st.Field(idx).Type()
		if !isStruct(ft) {
			return Term{}, nil, false
		}
		cur, ct = sc.vc.env.subRef(ct, idx, cur), ft
	}
	return cur, ct, true
}

func (sc *Scope) trIndex(x EIndex) (Term, types.Type) {
	env := sc.vc.env
	a, t := sc.Tr(x.X)
	if strings.HasPrefix(string(a.Sort), "(Array ") {
		// ghost (mathematical) map
		i, _ := sc.Tr(x.I)
		return Select(a, i), specArrayElem(t)
	}
	switch u := t.Underlying().(type) {
	case *types.Basic:
		if u.Info()&types.IsString != 0 {
			i, _ := sc.Tr(x.I)
			return App(SInt, "sat", a, i), types.Typ[types.Uint8]
		}
	case *types.Slice:
		i, _ := sc.Tr(x.I)
		ref := SIdx(a, i)
		if isStruct(u.Elem()) {
			return sc.load(ref, u.Elem()), u.Elem()
		}
		hn, hs := env.elemHeap(u.Elem())
		return Select(sc.heap(hn, hs), ref), u.Elem()
	case *types.Map:
		k, _ := sc.Tr(x.I)
		dn, vn, ds, vs := env.mapHeaps(t)
		_, _ = dn, ds
		return Select(Select(sc.heap(vn, vs), a), k), u.Elem()
	}
	// ghost array-valued things: (Array K V) terms
	if strings.HasPrefix(string(a.Sort), "(Array ") {
		i, _ := sc.Tr(x.I)
		return Select(a, i), specArrayElem(t)
	}
	sfail("cannot index %s of type %s", exprString(x.X), typeKey(t))
	return Term{}, nil
}

// specArrayElem: ghost map types map[K]V are modelled as SMT arrays.
func specArrayElem(t types.Type) types.Type {
	if m, ok := t.Underlying().(*types.Map); ok {
		return m.Elem()
	}
	return tInt
}

func (sc *Scope) trSlice(x ESlice) (Term, types.Type) {
	a, t := sc.Tr(x.X)
	var lo, hi Term
	if x.Lo != nil {
		lo, _ = sc.Tr(x.Lo)
	} else {
		lo = IntLit(0)
	}
	switch u := t.Underlying().(type) {
	case *types.Basic:
		if u.Info()&types.IsString != 0 {
			if x.Hi != nil {
				hi, _ = sc.Tr(x.Hi)
			} else {
				hi = SLen(a)
			}
			return App(SStr, "ssub", a, lo, hi), t
		}
	case *types.Slice:
		if x.Hi != nil {
			hi, _ = sc.Tr(x.Hi)
		} else {
			hi = SlLen(a)
		}
		return MkSlice(SlArr(a), Add(SlOff(a), lo), Sub(hi, lo), Sub(SlCap(a), lo)), t
	}
	sfail("cannot slice %s", exprString(x.X))
	return Term{}, nil
}

func (sc *Scope) trBinary(x EBinary) (Term, types.Type) {
	switch x.Op {
	case "&&", "||", "==>", "<==>":
		a, _ := sc.Tr(x.X)
		b, _ := sc.Tr(x.Y)
		if a.Sort != SBool || b.Sort != SBool {
			sfail("boolean operator %s on non-boolean in %s", x.Op, exprString(x))
		}
		switch x.Op {
		case "&&":
			return And(a, b), tBool
		case "||":
			return Or(a, b), tBool
		case "==>":
			return Implies(a, b), tBool
		default:
			return Eq(a, b), tBool
		}
	}
	a, ta := sc.Tr(x.X)
	b, tb := sc.Tr(x.Y)
	// nil adaptation
	if ta == tNil && tb != tNil {
		a = sc.vc.env.Zero(tb)
		ta = tb
	}
	if tb == tNil && ta != tNil {
		b = sc.vc.env.Zero(ta)
		tb = ta
	}
	if a.Sort != b.Sort {
		sfail("sort mismatch in %s: %s vs %s", exprString(x), a.Sort, b.Sort)
	}
	switch x.Op {
	case "==":
		return Eq(a, b), tBool
	case "!=":
		return Not(Eq(a, b)), tBool
	case "<", "<=", ">", ">=":
		if a.Sort == SStr {
			sfail("string ordering not supported")
		}
		return App(SBool, x.Op, a, b), tBool
	case "+":
		if a.Sort == SStr {
			return sc.vc.env.Cat(a, b), ta
		}
		return App(SInt, "+", a, b), ta
	case "-", "*":
		return App(SInt, x.Op, a, b), ta
	case "/":
		return App(SInt, "godiv", a, b), ta
	case "%":
		return App(SInt, "gomod", a, b), ta
	}
	sfail("unknown operator %s", x.Op)
	return Term{}, nil
}

func (sc *Scope) trQuant(x EQuant) (Term, types.Type) {
	n := sc.clone()
	n.qvars = map[string]bool{}
	for k := range sc.qvars {
		n.qvars[k] = true
	}
	for _, v := range x.Vars {
		n.qvars[v.Name] = true
	}
	var binders []string
	var guards []Term
	for _, v := range x.Vars {
		t := sc.resolveType(v.T)
		s := sc.vc.env.SortOf(t)
		name := "q_" + v.Name
		// avoid capture with nested quantifiers of the same name
		for contains(sc.bound, name) {
			name += "_"
		}
		n.bound = append(append([]string{}, n.bound...), name)
		n.vars[v.Name] = scopeVar{Term{name, s}, t}
		binders = append(binders, fmt.Sprintf("(%s %s)", name, s))
		if g := sc.vc.typeGuard(Term{name, s}, t); g.S != "true" && s != SInt {
			guards = append(guards, g)
		}
	}
	body, _ := n.Tr(x.Body)
	if body.Sort != SBool {
		sfail("quantifier body must be boolean")
	}
	var pats []string
	for _, tr := range x.Triggers {
		var ps []string
		for _, te := range tr {
			pt, _ := n.Tr(te)
			ps = append(ps, pt.S)
		}
		pats = append(pats, ":pattern ("+strings.Join(ps, " ")+")")
	}
	q := "exists"
	full := And(append(guards, body)...)
	if x.Forall {
		q = "forall"
		full = Implies(And(guards...), body)
	}
	if len(pats) > 0 {
		return Term{fmt.Sprintf("(%s (%s) (! %s %s))", q, strings.Join(binders, " "), full.S, strings.Join(pats, " ")), SBool}, tBool
	}
	return Term{fmt.Sprintf("(%s (%s) %s)", q, strings.Join(binders, " "), full.S), SBool}, tBool
}

func contains(xs []string, s string) bool {
	for _, x := range xs {
		if x == s {
			return true
		}
	}
	return false
}

func (sc *Scope) trCall(x ECall) (Term, types.Type) {
	env := sc.vc.env
	name := ""
	if id, ok := x.Fun.(EIdent); ok {
		name = id.Name
	}
	switch name {
	case "old":
		n := *sc
		n.inOld = true
		return (&n).Tr(x.Args[0])
	case "pre":
		if sc.pre == nil {
			sfail("pre() outside a loop invariant")
		}
		n := *sc
		n.st = sc.pre
		n.inOld = false
		return (&n).Tr(x.Args[0])
	case "visited":
		// visited(k): key k has already been produced by the (single) map range of this function
		var it *rangeIter
		for _, cand := range sc.vc.iters {
			if it != nil {
				sfail("visited(): more than one map range in the function")
			}
			it = cand
		}
		if it == nil {
			sfail("visited(): no map range in scope")
		}
		k, _ := sc.Tr(x.Args[0])
		mt := it.mt.Underlying().(*types.Map)
		return Select(sc.heap(it.visited, ArraySort(env.SortOf(mt.Key()), SBool)), k), tBool
	case "final":
		// final(x): content of the local variable x at this point (for parameters: not the entry value)
		id, ok := x.Args[0].(EIdent)
		if !ok || sc.frame == nil {
			sfail("final(x) needs a local variable")
		}
		t, typ, ok2 := sc.frame.localByName(sc.st, id.Name)
		if !ok2 {
			sfail("final(%s): no such local", id.Name)
		}
		return t, typ
	case "mapvals":
		// mapvals(m): the whole value function of map m (a mathematical map)
		m, t := sc.Tr(x.Args[0])
		if _, ok := t.Underlying().(*types.Map); !ok {
			sfail("mapvals() on non-map")
		}
		_, vn, _, vs := env.mapHeaps(t)
		return Select(sc.heap(vn, vs), m), t
	case "seqof":
		// seqof(s): the elements of slice s as a mathematical sequence (index -> element), in the current state
		a, t := sc.Tr(x.Args[0])
		sl, ok := t.Underlying().(*types.Slice)
		if !ok || isStruct(sl.Elem()) {
			sfail("seqof() needs a slice of non-struct elements")
		}
		hn, hs := env.elemHeap(sl.Elem())
		es := env.SortOf(sl.Elem())
		fn := "seqof_" + sanitize(string(es))
		if !env.declared[fn] {
			env.DeclFun(fn, []Sort{hs, SSlice}, ArraySort(SInt, es))
			env.Axiom(fmt.Sprintf("(forall ((h %s) (s Slice) (k Int)) (! (= (select (%s h s) k) (select h (sidx s k))) :pattern ((select (%s h s) k))))", hs, fn, fn))
		}
		return App(ArraySort(SInt, es), fn, sc.heap(hn, hs), a), types.NewMap(tInt, sl.Elem())
	case "age":
		// age(x): allocation stamp of the object behind x (smaller = allocated earlier)
		a, _ := sc.Tr(x.Args[0])
		r := a
		if a.Sort == SSlice {
			r = SlArr(a)
		} else if a.Sort == SIface {
			r = IfVal(a)
		}
		return Base(r), tInt
	case "lastselectchan":
		// the channel polled by the most recent non-blocking select
		return sc.heap("sel!chan", SInt), tInt
	case "lastselect":
		// outcome of the most recent non-blocking select: 0 = received (cancelled), -1 = default
		return sc.heap("sel!last", SInt), tInt
	case "len":
		a, t := sc.Tr(x.Args[0])
		switch u := t.Underlying().(type) {
		case *types.Basic:
			if u.Info()&types.IsString != 0 {
				return SLen(a), tInt
			}
		case *types.Slice:
			return SlLen(a), tInt
		case *types.Map:
			dn, _, ds, _ := env.mapHeaps(t)
			_ = dn
			_ = ds
			return App(SInt, "maplen", a), tInt
		}
		sfail("len of %s", typeKey(t))
	case "cap":
		a, _ := sc.Tr(x.Args[0])
		return SlCap(a), tInt
	case "fresh":
		a, t := sc.Tr(x.Args[0])
		old := sc.old
		if old == nil {
			old = sc.st
		}
		r := a
		if a.Sort == SSlice {
			r = SlArr(a)
		} else if a.Sort == SIface {
			r = IfVal(a)
		}
		_ = t
		return App(SBool, ">", Base(r), old.top), tBool
	case "allocated":
		a, _ := sc.Tr(x.Args[0])
		r := a
		if a.Sort == SSlice {
			r = SlArr(a)
		} else if a.Sort == SIface {
			r = IfVal(a)
		}
		return Le(Base(r), sc.heap("$top", SInt)), tBool
	case "live":
		// live(p): p is an allocated object of its static (pointer-to-struct) type
		a, t := sc.Tr(x.Args[0])
		pt, ok := t.Underlying().(*types.Pointer)
		if !ok {
			sfail("live() needs a pointer")
		}
		hn, hs := env.aliveHeap(pt.Elem())
		return And(Not(Eq(a, IntLit(0))), Select(sc.heap(hn, hs), a)), tBool
	case "ite":
		c, _ := sc.Tr(x.Args[0])
		a, ta := sc.Tr(x.Args[1])
		b, tb := sc.Tr(x.Args[2])
		if ta == tNil {
			a, ta = env.Zero(tb), tb
		}
		if tb == tNil {
			b = env.Zero(ta)
		}
		return Ite(c, a, b), ta
	case "dyn":
		a, t := sc.Tr(x.Args[0])
		if !isInterface(t) {
			sfail("dyn() of non-interface")
		}
		return IfTag(a), tInt
	case "payload":
		a, _ := sc.Tr(x.Args[0])
		return IfVal(a), tInt
	case "has":
		m, t := sc.Tr(x.Args[0])
		k, _ := sc.Tr(x.Args[1])
		if _, ok := t.Underlying().(*types.Map); !ok {
			sfail("has() on non-map")
		}
		dn, _, ds, _ := env.mapHeaps(t)
		return Select(Select(sc.heap(dn, ds), m), k), tBool
	case "dom":
		// dom(m): the key set of a Go map as a ghost set (map[K]bool)
		m, t := sc.Tr(x.Args[0])
		mt, ok := t.Underlying().(*types.Map)
		if !ok {
			sfail("dom() on non-map")
		}
		dn, _, ds, _ := env.mapHeaps(t)
		return Select(sc.heap(dn, ds), m), types.NewMap(mt.Key(), tBool)
	case "mapput":
		// mapput(g, k, v): the ghost map g with g[k] = v
		g, t := sc.Tr(x.Args[0])
		k, _ := sc.Tr(x.Args[1])
		v, _ := sc.Tr(x.Args[2])
		if !strings.HasPrefix(string(g.Sort), "(Array") {
			sfail("mapput() on a non-ghost map")
		}
		return Store(g, k, v), t
	case "implements":
		a, _ := sc.Tr(x.Args[0])
		tt := x.Args[1].(ETypeTag)
		it := sc.resolveType(tt.T)
		return sc.vc.implTerm(IfTag(a), it), tBool
	case "bytes":
		// bytes(b []byte) string : content of a byte slice as a string
		a, _ := sc.Tr(x.Args[0])
		return sc.vc.bytesOf(sc.heapFn(), a), tString
	case "ref":
		// ref(x): the reference (Int) behind a pointer/map/interface/slice
		a, _ := sc.Tr(x.Args[0])
		switch a.Sort {
		case SSlice:
			return SlArr(a), tInt
		case SIface:
			return IfVal(a), tInt
		}
		return a, tInt
	case "boundmethod":
		// boundmethod(fn, "(*T).M", recv): fn is the method value recv.M
		a, _ := sc.Tr(x.Args[0])
		lit, ok := x.Args[1].(EStr)
		if !ok || len(x.Args) != 3 {
			sfail("boundmethod(fn, \"(*T).M\", recv)")
		}
		var m *ssa.Function
		if sc.pkg != nil {
			m = sc.vc.p.funcs[sc.pkg.Path()+"::"+lit.Val]
		}
		if m == nil {
			sfail("boundmethod: no method %s", lit.Val)
		}
		obj, _ := m.Object().(*types.Func)
		if obj == nil {
			sfail("boundmethod: %s is not a declared method", lit.Val)
		}
		rcv, _ := sc.Tr(x.Args[2])
		return And(Eq(App(SInt, "fn_code", a), IntLit(int64(sc.vc.boundTag(obj.FullName())))), Eq(App(SInt, "fn_recv", a), rcv)), tBool
	case "callresult":
		// callresult(callee#k) / callresult(callee#k, i): the (i-th) value the k-th call of callee in this function returned
		id, ok := x.Args[0].(EIdent)
		if !ok {
			sfail("callresult(callee#k)")
		}
		idx := 0
		if len(x.Args) > 1 {
			if n, isInt := x.Args[1].(EInt); isInt {
				fmt.Sscanf(n.Val, "%d", &idx)
			}
		}
		fr := sc.frame
		if fr == nil {
			fr = sc.vc.topFrame
		}
		if fr == nil {
			sfail("callresult outside a function body")
		}
		name, ord := id.Name, 0
		if j := strings.Index(name, "#"); j >= 0 {
			fmt.Sscanf(name[j+1:], "%d", &ord)
			name = name[:j]
		}
		for _, b := range sc.vc.fn.Blocks {
			for _, in := range b.Instrs {
				ci, isCall := in.(*ssa.Call)
				if !isCall {
					continue
				}
				n, o, ok := sc.vc.anchorNameOrd(in)
				if !ok || n != name || o != ord {
					continue
				}
				v, have := sc.vc.topFrame.regs[ci]
				if !have {
					sfail("callresult(%s): the call has not been executed on this path", id.Name)
				}
				res := ci.Call.Signature().Results()
				if res.Len() == 1 {
					return v.T, res.At(0).Type()
				}
				if idx < len(v.Tuple) {
					return v.Tuple[idx].T, res.At(idx).Type()
				}
				sfail("callresult(%s, %d): no such result", id.Name, idx)
			}
		}
		sfail("callresult(%s): no such call in the function", id.Name)
	case "base":
		// base(x): the allocation (array / object) the reference behind x lies in; distinct bases never overlap
		a, _ := sc.Tr(x.Args[0])
		switch a.Sort {
		case SSlice:
			return Base(SlArr(a)), tInt
		case SIface:
			return Base(IfVal(a)), tInt
		}
		return Base(a), tInt
	case "iface":
		// iface(type(T), x): interface value with dynamic type T and payload x
		tt := x.Args[0].(ETypeTag)
		dt := sc.resolveType(tt.T)
		a, _ := sc.Tr(x.Args[1])
		return MkIface(IntLit(int64(sc.vc.tagOf(dt))), env.box(dt, a)), types.NewInterfaceType(nil, nil)
	}
	// spec function?
	if d, ok := sc.vc.p.cs.Defines[name]; ok {
		return sc.callDefine(d, x.Args)
	}
	// type conversion?
	if name != "" {
		if t, err := sc.vc.p.ResolveType(&TypeExpr{Kind: "name", Name: name}, sc.pkg); err == nil && len(x.Args) == 1 {
			a, ta := sc.Tr(x.Args[0])
			if ta == tNil {
				return env.Zero(t), t
			}
			return a, t
		}
	}
	if f, ok := x.Fun.(EField); ok {
		if id, ok := f.X.(EIdent); ok {
			if t, err := sc.vc.p.ResolveType(&TypeExpr{Kind: "qual", Pkg: id.Name, Name: f.Name}, sc.pkg); err == nil && len(x.Args) == 1 {
				a, ta := sc.Tr(x.Args[0])
				if ta == tNil {
					return env.Zero(t), t
				}
				return a, t
			}
			// pure trusted function used in a spec: pkg.Func(args) -> uninterpreted
			key := id.Name + "." + f.Name
			if c := sc.vc.p.trustedByShort(key); c != nil && c.Pure {
				return sc.pureCall(c, key, x.Args)
			}
		}
	}
	sfail("unknown function in %s", exprString(x))
	return Term{}, nil
}

func (sc *Scope) heapFn() func(string, Sort) Term {
	return func(n string, s Sort) Term { return sc.heap(n, s) }
}

// pureCall applies the uninterpreted function of a pure trusted contract.
func (sc *Scope) pureCall(c *Contract, key string, args []Expr) (Term, types.Type) {
	fn := sc.vc.p.externalByShort(key)
	if fn == nil {
		sfail("no such function %s", key)
	}
	var ts []Term
	for _, a := range args {
		t, _ := sc.Tr(a)
		ts = append(ts, t)
	}
	sig := fn.Signature
	rt := sig.Results().At(0).Type()
	return sc.vc.pureFn(fn, 0, ts), rt
}

func (vc *VC) pureFn(fn *ssa.Function, resIdx int, args []Term) Term {
	sig := fn.Signature
	name := fmt.Sprintf("pure_%s.r%d", sanitize(fn.String()), resIdx)
	if !vc.env.declared[name] {
		var as []Sort
		for _, a := range args {
			as = append(as, a.Sort)
		}
		vc.env.DeclFun(name, as, vc.env.SortOf(sig.Results().At(resIdx).Type()))
	}
	return App(vc.env.SortOf(sig.Results().At(resIdx).Type()), name, args...)
}

// callDefine applies a spec function; heaps it reads are passed explicitly.
func (sc *Scope) callDefine(d *Define, args []Expr) (Term, types.Type) {
	if sc.vc.analysing {
		// heap-read analysis: only the arguments matter here (callee heaps are added by the fixpoint)
		for _, a := range args {
			sc.Tr(a)
		}
		rt, err := sc.vc.p.ResolveType(d.Ret, sc.vc.p.typesPkg(d.PkgPath))
		if err != nil {
			sfail("define %s: %v", d.Name, err)
		}
		return Term{"|ANALYSIS|", sc.vc.env.SortOf(rt)}, rt
	}
	info := sc.vc.defineInfo(d)
	if len(args) != len(d.Params) {
		sfail("%s expects %d arguments", d.Name, len(d.Params))
	}
	var ts []Term
	for i, a := range args {
		t, ta := sc.Tr(a)
		if ta == tNil {
			t = sc.vc.env.Zero(info.paramTypes[i])
		}
		if t.Sort != sc.vc.env.SortOf(info.paramTypes[i]) {
			sfail("argument %d of %s: sort %s, want %s", i, d.Name, t.Sort, sc.vc.env.SortOf(info.paramTypes[i]))
		}
		ts = append(ts, t)
	}
	for _, h := range info.heaps {
		ts = append(ts, sc.heap(h.name, h.sort))
	}
	name := info.smtName
	if sc.limited[d.Name] {
		// recursive occurrence inside a definitional axiom: the limited synonym does not unfold further
		name = info.smtName + "_lim"
	}
	return App(sc.vc.env.SortOf(info.ret), name, ts...), info.ret
}

type heapRef struct {
	name string
	sort Sort
}

type defInfo struct {
	smtName    string
	paramTypes []types.Type
	ret        types.Type
	heaps      []heapRef
	declared   bool
	busy       bool
}

// defineInfo analyses (once) which heaps a spec function reads, declares the
// SMT function and emits its definitional axiom.
func (vc *VC) defineInfo(d *Define) *defInfo {
	if di, ok := vc.defs[d.Name]; ok {
		return di
	}
	pkg := vc.p.typesPkg(d.PkgPath)
	di := &defInfo{smtName: "spec_" + d.Name}
	for _, p := range d.Params {
		t, err := vc.p.ResolveType(p.T, pkg)
		if err != nil {
			sfail("define %s: %v", d.Name, err)
		}
		di.paramTypes = append(di.paramTypes, t)
	}
	rt, err := vc.p.ResolveType(d.Ret, pkg)
	if err != nil {
		sfail("define %s: %v", d.Name, err)
	}
	di.ret = rt
	// heap analysis over the call graph of defines (fixpoint)
	di.heaps = vc.p.defineHeaps(vc, d)
	vc.defs[d.Name] = di
	var argSorts []Sort
	for _, t := range di.paramTypes {
		argSorts = append(argSorts, vc.env.SortOf(t))
	}
	for _, h := range di.heaps {
		argSorts = append(argSorts, h.sort)
	}
	vc.env.DeclFun(di.smtName, argSorts, vc.env.SortOf(rt))
	scc := vc.p.recursiveWith(d)
	if len(scc) > 0 {
		vc.env.DeclFun(di.smtName+"_lim", argSorts, vc.env.SortOf(rt))
	}
	if d.Body != nil {
		// definitional axiom
		sc := &Scope{vc: vc, pkg: pkg, vars: map[string]scopeVar{}, heapAbs: map[string]Term{}, limited: scc}
		var binders []string
		var args []Term
		var guards []Term
		for i, p := range d.Params {
			n := "a_" + p.Name
			t := Term{n, vc.env.SortOf(di.paramTypes[i])}
			sc.vars[p.Name] = scopeVar{t, di.paramTypes[i]}
			binders = append(binders, fmt.Sprintf("(%s %s)", n, t.Sort))
			args = append(args, t)
			_ = guards
		}
		for _, h := range di.heaps {
			n := "h_" + h.name
			sc.heapAbs[h.name] = Term{n, h.sort}
			binders = append(binders, fmt.Sprintf("(%s %s)", n, h.sort))
			args = append(args, Term{n, h.sort})
		}
		sc.st = nil
		body, _ := sc.Tr(d.Body)
		app := App(vc.env.SortOf(rt), di.smtName, args...)
		if len(binders) == 0 {
			vc.env.Axiom(Eq(app, body).S)
		} else {
			vc.env.Axiom(fmt.Sprintf("(forall (%s) (! %s :pattern (%s)))", strings.Join(binders, " "), Eq(app, body).S, app.S))
			if len(scc) > 0 {
				lim := App(vc.env.SortOf(rt), di.smtName+"_lim", args...)
				vc.env.Axiom(fmt.Sprintf("(forall (%s) (! %s :pattern (%s)))", strings.Join(binders, " "), Eq(lim, app).S, app.S))
			}
		}
		if d.Trusted {
			vc.trustedUsed["define "+d.Name+" (trusted spec file)"] = true
		}
	} else {
		vc.trustedUsed["uninterpreted "+d.Name] = true
	}
	// axioms (assumed) and proved lemmas that mention this spec function become available
	for _, ax := range vc.p.cs.Axioms {
		if vc.axiomsDone[ax.Name] {
			continue
		}
		uses := false
		walkCalls(ax.E, func(n string) {
			if n == d.Name {
				uses = true
			}
		})
		if !uses {
			continue
		}
		if vc.lemmaName == "lemma."+ax.Name {
			continue // a lemma is not available in its own proof
		}
		if vc.axiomsDone == nil {
			vc.axiomsDone = map[string]bool{}
		}
		vc.axiomsDone[ax.Name] = true
		asc := &Scope{vc: vc, pkg: vc.p.typesPkg(ax.PkgPath), vars: map[string]scopeVar{}, st: &State{heaps: map[string]Term{}, locals: map[cellKey]Term{}, gen: -2, top: IntLit(0), pc: True}}
		asc.old = asc.st
		t, _ := asc.Tr(ax.E)
		vc.env.Axiom(t.S)
		if ax.Lemma {
			vc.lemmasUsed[ax.Name] = true
		} else {
			vc.trustedUsed["axiom "+ax.Name+": "+ax.Src] = true
		}
	}
	return di
}

// defineHeaps computes the transitive set of heaps read by a define.
func (p *Prog) defineHeaps(vc *VC, d *Define) []heapRef {
	if hs, ok := p.defHeapCache[d.Name]; ok {
		return hs
	}
	// iterate to a fixpoint over all defines reachable from d
	direct := map[string]map[string]Sort{}
	calls := map[string][]string{}
	var visit func(dd *Define)
	visit = func(dd *Define) {
		if _, ok := direct[dd.Name]; ok {
			return
		}
		direct[dd.Name] = map[string]Sort{}
		if dd.Body == nil {
			return
		}
		pkg := p.typesPkg(dd.PkgPath)
		sc := &Scope{vc: vc, pkg: pkg, vars: map[string]scopeVar{}, heapAbs: map[string]Term{}, heapUse: direct[dd.Name]}
		for _, q := range dd.Params {
			t, err := p.ResolveType(q.T, pkg)
			if err != nil {
				sfail("define %s: %v", dd.Name, err)
			}
			sc.vars[q.Name] = scopeVar{Term{"a_" + q.Name, vc.env.SortOf(t)}, t}
		}
		// temporarily make calls to defines record edges instead of recursing
		walkCalls(dd.Body, func(n string) {
			if o, ok := p.cs.Defines[n]; ok {
				calls[dd.Name] = append(calls[dd.Name], n)
				visit(o)
			}
		})
		vc.analysing = true
		func() {
			defer func() { vc.analysing = false }()
			sc.Tr(dd.Body)
		}()
	}
	visit(d)
	changed := true
	for changed {
		changed = false
		for n, cs := range calls {
			for _, c := range cs {
				for h, s := range direct[c] {
					if _, ok := direct[n][h]; !ok {
						direct[n][h] = s
						changed = true
					}
				}
			}
		}
	}
	for n, hs := range direct {
		var out []heapRef
		for _, k := range sortedKeys(hs) {
			out = append(out, heapRef{k, hs[k]})
		}
		p.defHeapCache[n] = out
	}
	return p.defHeapCache[d.Name]
}

func walkCalls(e Expr, f func(name string)) {
	switch x := e.(type) {
	case ECall:
		if id, ok := x.Fun.(EIdent); ok {
			f(id.Name)
		}
		walkCalls(x.Fun, f)
		for _, a := range x.Args {
			walkCalls(a, f)
		}
	case EUnary:
		walkCalls(x.X, f)
	case EBinary:
		walkCalls(x.X, f)
		walkCalls(x.Y, f)
	case EIndex:
		walkCalls(x.X, f)
		walkCalls(x.I, f)
	case ESlice:
		walkCalls(x.X, f)
		if x.Lo != nil {
			walkCalls(x.Lo, f)
		}
		if x.Hi != nil {
			walkCalls(x.Hi, f)
		}
	case EField:
		walkCalls(x.X, f)
	case EAssert:
		walkCalls(x.X, f)
	case EQuant:
		walkCalls(x.Body, f)
		for _, t := range x.Triggers {
			for _, te := range t {
				walkCalls(te, f)
			}
		}
	}
}

// typeGuard gives the background facts known of a value of Go type t (used for
// quantified variables, parameters, loaded values).
func (vc *VC) typeGuard(v Term, t types.Type) Term {
	if lo, hi, ok := intRange(t); ok {
		return And(Le(BigLit(lo), v), Le(v, BigLit(hi)))
	}
	switch t.Underlying().(type) {
	case *types.Slice:
		return And(Le(IntLit(0), SlLen(v)), Le(SlLen(v), SlCap(v)), Le(IntLit(0), SlOff(v)),
			Implies(Eq(SlArr(v), IntLit(0)), Eq(SlCap(v), IntLit(0))))
	}
	return True
}

// recursiveWith returns the set of spec functions in the same recursion cycle
// as d (empty if d is not recursive).
func (p *Prog) recursiveWith(d *Define) map[string]bool {
	reach := func(from string) map[string]bool {
		seen := map[string]bool{}
		var visit func(n string)
		visit = func(n string) {
			dd, ok := p.cs.Defines[n]
			if !ok || dd.Body == nil {
				return
			}
			walkCalls(dd.Body, func(c string) {
				if _, isDef := p.cs.Defines[c]; isDef && !seen[c] {
					seen[c] = true
					visit(c)
				}
			})
		}
		visit(from)
		return seen
	}
	mine := reach(d.Name)
	if !mine[d.Name] {
		return nil
	}
	scc := map[string]bool{}
	for n := range mine {
		if reach(n)[d.Name] {
			scc[n] = true
		}
	}
	return scc
}
