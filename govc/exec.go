package main

// Symbolic execution of one SSA function body (acyclic after cutting loops).

import (
	"fmt"
	"go/constant"
	"go/token"
	"go/types"
	"sort"
	"strings"

	"golang.org/x/tools/go/ssa"
)

type exitInfo struct {
	st      *State
	results []Value
}

// cfgInfo: topological order without back edges, loop headers and bodies.
type cfgInfo struct {
	order   []*ssa.BasicBlock
	back    map[[2]int]bool // edge (from,to) is a back edge
	headers []*ssa.BasicBlock
	bodies  map[*ssa.BasicBlock]map[*ssa.BasicBlock]bool
}

func analyseCFG(fn *ssa.Function) *cfgInfo {
	ci := &cfgInfo{back: map[[2]int]bool{}, bodies: map[*ssa.BasicBlock]map[*ssa.BasicBlock]bool{}}
	if len(fn.Blocks) == 0 {
		return ci
	}
	// back edges: target dominates source
	for _, b := range fn.Blocks {
		for _, s := range b.Succs {
			if s.Dominates(b) {
				ci.back[[2]int{b.Index, s.Index}] = true
				if ci.bodies[s] == nil {
					ci.bodies[s] = map[*ssa.BasicBlock]bool{s: true}
					ci.headers = append(ci.headers, s)
				}
				// natural loop: nodes that reach b without passing s
				var stack []*ssa.BasicBlock
				if !ci.bodies[s][b] {
					ci.bodies[s][b] = true
					stack = append(stack, b)
				}
				for len(stack) > 0 {
					n := stack[len(stack)-1]
					stack = stack[:len(stack)-1]
					for _, p := range n.Preds {
						if !ci.bodies[s][p] {
							ci.bodies[s][p] = true
							stack = append(stack, p)
						}
					}
				}
			}
		}
	}
	sort.Slice(ci.headers, func(i, j int) bool { return headerPos(ci.headers[i]) < headerPos(ci.headers[j]) })
	// reverse postorder ignoring back edges
	seen := map[*ssa.BasicBlock]bool{}
	var post []*ssa.BasicBlock
	var dfs func(b *ssa.BasicBlock)
	dfs = func(b *ssa.BasicBlock) {
		seen[b] = true
		for _, s := range b.Succs {
			if ci.back[[2]int{b.Index, s.Index}] || seen[s] {
				continue
			}
			dfs(s)
		}
		post = append(post, b)
	}
	dfs(fn.Blocks[0])
	// recover blocks are not reachable from entry; skip them
	for i := len(post) - 1; i >= 0; i-- {
		ci.order = append(ci.order, post[i])
	}
	return ci
}

// headerPos orders loop headers in source order: by the smallest position of
// an instruction in the header, falling back to block index.
func headerPos(b *ssa.BasicBlock) int {
	best := -1
	for _, in := range b.Instrs {
		if p := in.Pos(); p.IsValid() && (best < 0 || int(p) < best) {
			best = int(p)
		}
	}
	if best < 0 {
		return 1<<30 + b.Index
	}
	return best
}

// execBody runs fn in frame f from state st0 and returns the merged exit.
func (f *Frame) execBody(st0 *State) (*State, []Value, bool) {
	vc := f.vc
	fn := f.fn
	if len(fn.Blocks) == 0 {
		vc.unsupported("function %s has no body", fn.String())
		return st0, nil, false
	}
	ci := analyseCFG(fn)
	for i, h := range ci.headers {
		f.loops[h] = &loopInfo{ordinal: i, body: ci.bodies[h]}
	}
	incoming := map[*ssa.BasicBlock][]inEdge{}
	incoming[fn.Blocks[0]] = []inEdge{{st0, st0.pc}}
	edgeFrom := map[*ssa.BasicBlock][]*ssa.BasicBlock{}
	edgeFrom[fn.Blocks[0]] = []*ssa.BasicBlock{nil}
	var exits []exitInfo
	for _, b := range ci.order {
		ins := incoming[b]
		if len(ins) == 0 {
			continue
		}
		st := vc.merge(ins, fmt.Sprintf("%s.b%d", fn.Name(), b.Index))
		if li, ok := f.loops[b]; ok {
			st = f.enterLoop(st, b, li)
		}
		// phis
		for _, in := range b.Instrs {
			phi, ok := in.(*ssa.Phi)
			if !ok {
				break
			}
			var vals []Term
			var conds []Term
			for k, pred := range edgeFrom[b] {
				for ei, p := range b.Preds {
					if p == pred {
						vals = append(vals, f.val(phi.Edges[ei]).T)
						conds = append(conds, ins[k].cond)
						break
					}
				}
			}
			c := vc.freshConst("phi."+phi.Name(), vc.env.SortOf(phi.Type()))
			for i := range vals {
				vc.assume(Implies(conds[i], Eq(c, vals[i])))
			}
			f.regs[phi] = Value{T: c}
		}
		dead := false
		for _, in := range b.Instrs {
			if _, ok := in.(*ssa.Phi); ok {
				continue
			}
			switch x := in.(type) {
			case *ssa.If:
				c := f.val(x.Cond).T
				f.pushEdge(ci, incoming, edgeFrom, b, b.Succs[0], st, And(st.pc, c))
				f.pushEdge(ci, incoming, edgeFrom, b, b.Succs[1], st, And(st.pc, Not(c)))
			case *ssa.Jump:
				f.pushEdge(ci, incoming, edgeFrom, b, b.Succs[0], st, st.pc)
			case *ssa.Return:
				var rs []Value
				for _, r := range x.Results {
					rs = append(rs, f.val(r))
				}
				exits = append(exits, exitInfo{st, rs})
			case *ssa.Panic:
				f.execPanic(st, x)
				dead = true
			default:
				st = f.execInstr(st, in)
				if st == nil {
					dead = true
				}
			}
			if dead {
				break
			}
		}
	}
	if len(exits) == 0 {
		return nil, nil, false
	}
	var eins []inEdge
	for _, e := range exits {
		eins = append(eins, inEdge{e.st, e.st.pc})
	}
	out := vc.merge(eins, fn.Name()+".exit")
	nres := len(exits[0].results)
	results := make([]Value, nres)
	for i := 0; i < nres; i++ {
		i := i
		if len(exits) == 1 {
			results[i] = exits[0].results[i]
			continue
		}
		same := true
		for _, e := range exits[1:] {
			if e.results[i].T.S != exits[0].results[i].T.S {
				same = false
			}
		}
		if same {
			results[i] = exits[0].results[i]
			continue
		}
		c := vc.freshConst("ret", exits[0].results[i].T.Sort)
		for _, e := range exits {
			vc.assume(Implies(e.st.pc, Eq(c, e.results[i].T)))
		}
		results[i] = Value{T: c}
	}
	return out, results, true
}

func (f *Frame) pushEdge(ci *cfgInfo, incoming map[*ssa.BasicBlock][]inEdge, edgeFrom map[*ssa.BasicBlock][]*ssa.BasicBlock, from, to *ssa.BasicBlock, st *State, cond Term) {
	if ci.back[[2]int{from.Index, to.Index}] {
		f.closeLoop(st, cond, to)
		return
	}
	incoming[to] = append(incoming[to], inEdge{st.clone(), cond})
	edgeFrom[to] = append(edgeFrom[to], from)
}

// val returns the symbolic value of an SSA value.
func (f *Frame) val(v ssa.Value) Value {
	vc := f.vc
	switch x := v.(type) {
	case *ssa.Const:
		return Value{T: f.constVal(x)}
	case *ssa.Function:
		return Value{T: IntLit(int64(vc.fnTag(x))), Fn: x}
	case *ssa.Global:
		ref := vc.globalRef(x)
		elem := x.Type().Underlying().(*types.Pointer).Elem()
		if isStruct(elem) || isArray(elem) {
			return Value{T: ref}
		}
		hn, hs := vc.env.cellHeap(elem)
		return Value{T: ref, Loc: &Loc{Kind: locHeap, Heap: hn, HSort: hs, Idx: ref, Typ: elem}}
	case *ssa.Builtin:
		return Value{T: IntLit(0)}
	case *ssa.Parameter:
		for i, p := range f.fn.Params {
			if p == x {
				return f.params[i]
			}
		}
	case *ssa.FreeVar:
		for i, fv := range f.fn.FreeVars {
			if fv == x {
				if i < len(f.freeVars) {
					return f.freeVars[i]
				}
			}
		}
	}
	if r, ok := f.regs[v]; ok {
		return r
	}
	vc.unsupported("use of undefined value %s in %s", v.Name(), f.fn.Name())
	return Value{T: vc.freshConst("undef", vc.env.SortOf(v.Type()))}
}

// boundMethodOf returns the method behind a bound-method wrapper ($bound), or nil.
func boundMethodOf(fn *ssa.Function) *types.Func {
	if !strings.HasPrefix(fn.Synthetic, "bound method wrapper") {
		return nil
	}
	m, _ := fn.Object().(*types.Func)
	return m
}

// boundTag: code of the bound method values of one method (stable per method, independent of the wrapper object).
func (vc *VC) boundTag(full string) int {
	if vc.boundTags == nil {
		vc.boundTags = map[string]int{}
	}
	if t, ok := vc.boundTags[full]; ok {
		return t
	}
	t := 2000000 + len(vc.boundTags)
	vc.boundTags[full] = t
	return t
}

func (vc *VC) fnTag(fn *ssa.Function) int {
	if t, ok := vc.fnTags[fn]; ok {
		return t
	}
	t := 1000000 + len(vc.fnTags)
	vc.fnTags[fn] = t
	return t
}

func (f *Frame) constVal(c *ssa.Const) Term {
	vc := f.vc
	if c.Value == nil {
		return vc.env.Zero(c.Type())
	}
	t := c.Type()
	if b, ok := t.Underlying().(*types.Basic); ok {
		switch {
		case b.Info()&types.IsBoolean != 0:
			if constant.BoolVal(c.Value) {
				return True
			}
			return False
		case b.Info()&types.IsString != 0:
			return vc.env.StrLit(constant.StringVal(c.Value))
		case b.Info()&types.IsInteger != 0:
			if i := constant.ToInt(c.Value); i.Kind() == constant.Int {
				return BigLit(i.ExactString())
			}
		case b.Info()&types.IsFloat != 0:
			return vc.floatConst(c.Value.ExactString())
		}
	}
	return vc.constTerm(c.Value, t)
}

// anchorOf gives a stable, line-independent anchor for an instruction: its kind
// plus ordinal among instructions of that kind in the function.
func (vc *VC) anchorOf(in ssa.Instruction) string {
	if vc.anchors == nil {
		vc.anchors = map[ssa.Instruction]string{}
	}
	if a, ok := vc.anchors[in]; ok {
		return a
	}
	fn := in.Parent()
	counts := map[string]int{}
	for _, b := range fn.Blocks {
		for _, i := range b.Instrs {
			k := instrKind(i)
			if k == "" {
				continue
			}
			if ci, isCall := i.(ssa.CallInstruction); isCall {
				// a call through a renamed local function variable keeps the name the contract uses
				k = "call:" + vc.p.contractName(fn, calleeName(ci.Common()))
			}
			vc.anchors[i] = fmt.Sprintf("%s#%d", k, counts[k])
			counts[k]++
		}
	}
	if fn != vc.fn {
		for i, a := range vc.anchors {
			if i.Parent() == fn && len(a) > 0 && a[0] != '[' {
				vc.anchors[i] = "[" + fn.Name() + "]" + a
			}
		}
	}
	return vc.anchors[in]
}

func instrKind(in ssa.Instruction) string {
	switch x := in.(type) {
	case ssa.CallInstruction:
		return "call:" + calleeName(x.Common())
	case *ssa.IndexAddr, *ssa.Index:
		return "index"
	case *ssa.Lookup:
		return "lookup"
	case *ssa.Slice:
		return "slice"
	case *ssa.UnOp:
		if x.Op == token.MUL {
			return "load"
		}
		return "unop"
	case *ssa.Store:
		return "store"
	case *ssa.FieldAddr:
		return "field"
	case *ssa.MapUpdate:
		return "mapupdate"
	case *ssa.TypeAssert:
		return "typeassert"
	case *ssa.BinOp:
		return "binop"
	case *ssa.Panic:
		return "panic"
	case *ssa.Convert:
		return "convert"
	case *ssa.MakeSlice:
		return "makeslice"
	case *ssa.Next:
		return "next"
	}
	return ""
}

func calleeName(c *ssa.CallCommon) string {
	if c.IsInvoke() {
		return c.Method.Name()
	}
	switch v := c.Value.(type) {
	case *ssa.Function:
		return v.Name()
	case *ssa.Builtin:
		return v.Name()
	case *ssa.MakeClosure:
		return v.Fn.(*ssa.Function).Name()
	}
	// dynamic call: use the source variable/field name when recognisable
	switch v := c.Value.(type) {
	case *ssa.UnOp:
		if fa, ok := v.X.(*ssa.FieldAddr); ok {
			st := fa.X.Type().Underlying().(*types.Pointer).Elem().Underlying().(*types.Struct)
			return st.Field(fa.Field).Name()
		}
		if a, ok := v.X.(*ssa.Alloc); ok && a.Comment != "" {
			return a.Comment
		}
		if fv, ok := v.X.(*ssa.FreeVar); ok {
			return fv.Name()
		}
		if _, ok := v.X.(*ssa.IndexAddr); ok {
			return "elem"
		}
	}
	return "dyn"
}

func (f *Frame) execPanic(st *State, x *ssa.Panic) {
	vc := f.vc
	if vc.c != nil && len(vc.c.Panics) > 0 {
		var alts []Term
		for _, pc := range vc.c.Panics {
			t, ok := vc.trClause(vc.entryScope(), pc)
			if ok {
				alts = append(alts, t)
			}
		}
		vc.oblige(st, "panic", vc.anchorOf(x), Or(alts...), nil, "explicit panic only under the declared panics condition", x.Pos())
		return
	}
	vc.oblige(st, "panic", vc.anchorOf(x), False, nil, "explicit panic must be unreachable", x.Pos())
}

func (vc *VC) safetyOn(class string) bool {
	if class == "ovf" {
		return vc.c != nil && vc.c.Ovf
	}
	return true
}

// execInstr executes a non-terminator instruction; returns nil if the path dies.
func (f *Frame) execInstr(st *State, in ssa.Instruction) *State {
	vc := f.vc
	env := vc.env
	switch x := in.(type) {
	case *ssa.Alloc:
		elem := x.Type().Underlying().(*types.Pointer).Elem()
		if f.scalarLocal(x) {
			key := cellKey{f, x}
			st.locals[key] = env.Zero(elem)
			f.regs[x] = Value{T: IntLit(-1), Loc: &Loc{Kind: locLocal, Cell: key, Typ: elem, Root: elem}}
			return st
		}
		ref := f.allocRef(st, elem)
		v := Value{T: ref}
		if !isStruct(elem) && !isArray(elem) {
			hn, hs := env.cellHeap(elem)
			v.Loc = &Loc{Kind: locHeap, Heap: hn, HSort: hs, Idx: ref, Typ: elem}
		}
		f.zeroInit(st, v, elem)
		f.regs[x] = v
	case *ssa.Store:
		addr := f.val(x.Addr)
		elem := x.Addr.Type().Underlying().(*types.Pointer).Elem()
		f.nilCheck(st, addr, x.Addr, in)
		val := f.val(x.Val)
		f.escapeCheck(val, in)
		f.store(st, addr, elem, val.T, in)
		// remember closures / function values stored in local cells
		if addr.Loc != nil && addr.Loc.Kind == locLocal && (val.Fn != nil) {
			f.regs[cellShadow{addr.Loc.Cell}] = val
		}
	case *ssa.UnOp:
		f.execUnOp(st, x)
	case *ssa.BinOp:
		f.execBinOp(st, x)
	case *ssa.FieldAddr:
		obj := f.val(x.X)
		owner := x.X.Type().Underlying().(*types.Pointer).Elem()
		f.nilCheck(st, obj, x.X, in)
		f.regs[x] = f.fieldAddr(obj, owner, x.Field)
	case *ssa.Field:
		sv := f.val(x.X)
		f.regs[x] = Value{T: env.structGet(x.X.Type(), sv.T, x.Field)}
	case *ssa.IndexAddr:
		f.execIndexAddr(st, x)
	case *ssa.Index:
		if b, ok := x.X.Type().Underlying().(*types.Basic); ok && b.Info()&types.IsString != 0 {
			base := f.val(x.X).T
			idx := f.val(x.Index).T
			vc.oblige(st, "bounds", vc.anchorOf(x), And(Le(IntLit(0), idx), Lt(idx, SLen(base))), nil, "string index out of range", x.Pos())
			f.regs[x] = Value{T: App(SInt, "sat", base, idx)}
			break
		}
		vc.unsupported("Index on array value in %s", f.fn.Name())
		f.regs[x] = Value{T: vc.freshConst("idx", env.SortOf(x.Type()))}
	case *ssa.Lookup:
		f.execLookup(st, x)
	case *ssa.MapUpdate:
		f.execMapUpdate(st, x)
	case *ssa.Slice:
		f.execSlice(st, x)
	case *ssa.MakeMap:
		ref := f.allocRef(st, x.Type())
		dn, vn, ds, vs := env.mapHeaps(x.Type())
		m := x.Type().Underlying().(*types.Map)
		ks := env.SortOf(m.Key())
		emptyDom := Term{fmt.Sprintf("((as const (Array %s Bool)) false)", ks), ArraySort(ks, SBool)}
		st.SetHeap(dn, Store(st.Heap(vc, dn, ds), ref, emptyDom))
		es := env.SortOf(m.Elem())
		emptyVal := Term{fmt.Sprintf("((as const (Array %s %s)) %s)", ks, es, env.Zero(m.Elem()).S), ArraySort(ks, es)}
		st.SetHeap(vn, Store(st.Heap(vc, vn, vs), ref, emptyVal))
		f.regs[x] = Value{T: ref}
	case *ssa.MakeSlice:
		f.execMakeSlice(st, x)
	case *ssa.MakeInterface:
		v := f.val(x.X)
		f.escapeCheck(v, in)
		t := x.X.Type()
		f.regs[x] = Value{T: MkIface(IntLit(int64(vc.tagOf(t))), env.box(t, v.T)), Fn: v.Fn, Bindings: v.Bindings}
	case *ssa.MakeClosure:
		fn := x.Fn.(*ssa.Function)
		id := vc.freshConst("clo."+fn.Name(), SInt)
		var bs []Value
		for _, b := range x.Bindings {
			bs = append(bs, f.val(b))
		}
		code := vc.fnTag(fn)
		if m := boundMethodOf(fn); m != nil && len(bs) == 1 && bs[0].T.Sort == SInt {
			// a bound method value x.M: identified by the method and the receiver it is bound to
			code = vc.boundTag(m.FullName())
			vc.assumeIn(st, Eq(App(SInt, "fn_recv", id), bs[0].T))
		}
		vc.assumeIn(st, And(Eq(App(SInt, "fn_code", id), IntLit(int64(code))), Not(Eq(id, IntLit(0)))))
		f.regs[x] = Value{T: id, Fn: fn, Bindings: bs}
		if cc := vc.p.contractFor(fn); cc != nil && len(cc.CapReq) > 0 {
			// the closure's assumptions about captured variables must hold where it is created
			sc := vc.entryScope()
			sc.st, sc.frame = st, f
			for _, r := range cc.CapReq {
				parts, ok := vc.trGoal(sc, r)
				if ok {
					for _, g := range parts {
						vc.oblige(st, "closure", "make:"+fn.Name()+":"+r.Name+g.label, g.t, nil, "captured-variable precondition of closure "+fn.Name()+": "+g.src, x.Pos())
					}
				}
			}
		}
	case *ssa.ChangeType:
		v := f.val(x.X)
		f.regs[x] = v
	case *ssa.ChangeInterface:
		f.regs[x] = f.val(x.X)
	case *ssa.Convert:
		f.execConvert(st, x)
	case *ssa.TypeAssert:
		f.execTypeAssert(st, x)
	case *ssa.Extract:
		tv := f.val(x.Tuple)
		if x.Index < len(tv.Tuple) {
			f.regs[x] = tv.Tuple[x.Index]
		} else {
			vc.unsupported("extract from unknown tuple")
			f.regs[x] = Value{T: vc.freshConst("ext", env.SortOf(x.Type()))}
		}
	case *ssa.Call:
		return f.execCall(st, x, x.Common(), x)
	case *ssa.Defer:
		f.execDefer(st, x)
	case *ssa.RunDefers:
		// deferred closures are verified separately (see execDefer)
	case *ssa.Range:
		f.execRange(st, x)
	case *ssa.Next:
		f.execNext(st, x)
	case *ssa.Select:
		f.execSelect(st, x)
	case *ssa.Go:
		vc.unsupported("go statement in %s", f.fn.Name())
	case *ssa.Send:
		vc.unsupported("channel send in %s", f.fn.Name())
	case *ssa.MakeChan:
		f.regs[x] = Value{T: f.allocRef(st, x.Type())}
	case *ssa.DebugRef:
	default:
		vc.unsupported("instruction %T in %s", in, f.fn.Name())
		if v, ok := in.(ssa.Value); ok {
			f.regs[v] = Value{T: vc.freshConst("unk", env.SortOf(v.Type()))}
		}
	}
	return st
}

// cellShadow keys f.regs for "last function value stored in a local cell".
type cellShadow struct{ k cellKey }

func (cellShadow) Name() string                  { return "shadow" }
func (cellShadow) String() string                { return "shadow" }
func (cellShadow) Type() types.Type              { return nil }
func (cellShadow) Parent() *ssa.Function         { return nil }
func (cellShadow) Referrers() *[]ssa.Instruction { return nil }
func (cellShadow) Pos() token.Pos                { return token.NoPos }

// nilCheck emits the nil-dereference obligation for pointer value v.
func (f *Frame) nilCheck(st *State, v Value, src ssa.Value, in ssa.Instruction) {
	if v.Loc != nil && v.Loc.Kind == locLocal {
		return
	}
	switch src.(type) {
	case *ssa.Alloc, *ssa.Global, *ssa.FieldAddr, *ssa.IndexAddr, *ssa.FreeVar:
		return
	}
	if v.Loc != nil && v.Loc.Field {
		return
	}
	f.vc.oblige(st, "nil", f.vc.anchorOf(in), Not(Eq(v.T, IntLit(0))), nil, "nil pointer dereference", in.Pos())
}

// escapeCheck flags scalar field addresses that escape as values.
func (f *Frame) escapeCheck(v Value, in ssa.Instruction) {
	if v.Loc != nil && v.Loc.Field {
		f.vc.unsupported("address of scalar field escapes at %s", f.vc.anchorOf(in))
	}
}

func (f *Frame) execUnOp(st *State, x *ssa.UnOp) {
	vc := f.vc
	env := vc.env
	v := f.val(x.X)
	switch x.Op {
	case token.MUL:
		elem := x.X.Type().Underlying().(*types.Pointer).Elem()
		f.nilCheck(st, v, x.X, x)
		t := f.load(st, v, elem)
		out := Value{T: t}
		// closures stored in local cells keep their identity
		if v.Loc != nil && v.Loc.Kind == locLocal {
			if sh, ok := f.regs[cellShadow{v.Loc.Cell}]; ok && sh.T.S == t.S {
				out.Fn, out.Bindings = sh.Fn, sh.Bindings
			}
		}
		if v.Loc != nil && v.Loc.Kind == locHeap && vc.cellFns != nil {
			if kf, ok := vc.cellFns[v.Loc.Idx.S]; ok {
				out.Fn = kf
			}
		}
		if v.Loc == nil || v.Loc.Kind == locHeap {
			// value enters from the heap: background facts
			if !isStruct(elem) {
				f.factsOf(st, t, elem)
			}
		}
		f.regs[x] = out
	case token.NOT:
		f.regs[x] = Value{T: Not(v.T)}
	case token.SUB:
		if v.T.Sort == SFloat {
			env.DeclFun("fneg", []Sort{SFloat}, SFloat)
			f.regs[x] = Value{T: App(SFloat, "fneg", v.T)}
			return
		}
		f.regs[x] = Value{T: App(SInt, "-", v.T)}
	case token.XOR:
		env.DeclFun("bitnot", []Sort{SInt}, SInt)
		f.regs[x] = Value{T: App(SInt, "bitnot", v.T)}
	case token.ARROW:
		vc.unsupported("channel receive in %s", f.fn.Name())
		f.regs[x] = Value{T: vc.freshConst("recv", env.SortOf(x.Type()))}
	default:
		vc.unsupported("unary op %s", x.Op)
		f.regs[x] = Value{T: vc.freshConst("un", env.SortOf(x.Type()))}
	}
}

func (f *Frame) execBinOp(st *State, x *ssa.BinOp) {
	vc := f.vc
	env := vc.env
	a, b := f.val(x.X).T, f.val(x.Y).T
	rs := env.SortOf(x.Type())
	if a.Sort == SFloat || b.Sort == SFloat {
		name := "f" + sanitize(x.Op.String())
		switch x.Op {
		case token.EQL:
			f.regs[x] = Value{T: Eq(a, b)}
			return
		case token.NEQ:
			f.regs[x] = Value{T: Not(Eq(a, b))}
			return
		}
		env.DeclFun(name, []Sort{SFloat, SFloat}, rs)
		f.regs[x] = Value{T: App(rs, name, a, b)}
		return
	}
	var r Term
	switch x.Op {
	case token.ADD:
		if a.Sort == SStr {
			r = vc.env.Cat(a, b)
		} else {
			r = Add(a, b)
			f.ovfCheck(st, r, x)
		}
	case token.SUB:
		r = Sub(a, b)
		f.ovfCheck(st, r, x)
	case token.MUL:
		r = App(SInt, "*", a, b)
		f.ovfCheck(st, r, x)
	case token.QUO:
		vc.oblige(st, "div", vc.anchorOf(x), Not(Eq(b, IntLit(0))), nil, "division by zero", x.Pos())
		r = App(SInt, "godiv", a, b)
	case token.REM:
		vc.oblige(st, "div", vc.anchorOf(x), Not(Eq(b, IntLit(0))), nil, "division by zero", x.Pos())
		r = App(SInt, "gomod", a, b)
	case token.EQL:
		r = Eq(a, b)
	case token.NEQ:
		r = Not(Eq(a, b))
	case token.LSS, token.LEQ, token.GTR, token.GEQ:
		if a.Sort == SStr {
			env.DeclFun("strlt", []Sort{SStr, SStr}, SBool)
			switch x.Op {
			case token.LSS:
				r = App(SBool, "strlt", a, b)
			case token.GTR:
				r = App(SBool, "strlt", b, a)
			case token.LEQ:
				r = Not(App(SBool, "strlt", b, a))
			default:
				r = Not(App(SBool, "strlt", a, b))
			}
		} else {
			r = App(SBool, x.Op.String(), a, b)
		}
	case token.AND, token.OR, token.XOR, token.SHL, token.SHR, token.AND_NOT:
		name := map[token.Token]string{token.AND: "bitand", token.OR: "bitor", token.XOR: "bitxor", token.SHL: "shl", token.SHR: "shr", token.AND_NOT: "bitandnot"}[x.Op]
		env.DeclFun(name, []Sort{SInt, SInt}, SInt)
		r = App(SInt, name, a, b)
		if lo, hi, ok := intRange(x.Type()); ok {
			vc.assume(And(Le(BigLit(lo), r), Le(r, BigLit(hi))))
		}
	default:
		vc.unsupported("binary op %s", x.Op)
		r = vc.freshConst("bin", rs)
	}
	f.regs[x] = Value{T: r}
}

func (f *Frame) ovfCheck(st *State, r Term, x *ssa.BinOp) {
	vc := f.vc
	lo, hi, ok := intRange(x.Type())
	if !ok {
		return
	}
	if vc.safetyOn("ovf") {
		vc.oblige(st, "ovf", vc.anchorOf(x), And(Le(BigLit(lo), r), Le(r, BigLit(hi))), nil, "integer overflow", x.Pos())
	}
}

func (f *Frame) execIndexAddr(st *State, x *ssa.IndexAddr) {
	vc := f.vc
	base := f.val(x.X)
	idx := f.val(x.Index).T
	switch u := x.X.Type().Underlying().(type) {
	case *types.Slice:
		vc.oblige(st, "bounds", vc.anchorOf(x), And(Le(IntLit(0), idx), Lt(idx, SlLen(base.T))), nil, "slice index out of range", x.Pos())
		f.regs[x] = f.elemAddrRef(SIdx(base.T, idx), u.Elem())
	case *types.Pointer:
		arr := u.Elem().Underlying().(*types.Array)
		f.nilCheck(st, base, x.X, x)
		vc.oblige(st, "bounds", vc.anchorOf(x), And(Le(IntLit(0), idx), Lt(idx, IntLit(arr.Len()))), nil, "array index out of range", x.Pos())
		f.regs[x] = f.elemAddr(base.T, idx, arr.Elem())
	default:
		vc.unsupported("IndexAddr on %s", typeKey(x.X.Type()))
		f.regs[x] = Value{T: vc.freshConst("ia", SInt)}
	}
}

func (f *Frame) execLookup(st *State, x *ssa.Lookup) {
	vc := f.vc
	env := vc.env
	base := f.val(x.X).T
	idx := f.val(x.Index).T
	if b, ok := x.X.Type().Underlying().(*types.Basic); ok && b.Info()&types.IsString != 0 {
		vc.oblige(st, "bounds", vc.anchorOf(x), And(Le(IntLit(0), idx), Lt(idx, SLen(base))), nil, "string index out of range", x.Pos())
		f.regs[x] = Value{T: App(SInt, "sat", base, idx)}
		return
	}
	m := x.X.Type().Underlying().(*types.Map)
	dn, vn, ds, vs := env.mapHeaps(x.X.Type())
	dom := Select(Select(st.Heap(vc, dn, ds), base), idx)
	val := Select(Select(st.Heap(vc, vn, vs), base), idx)
	// absent keys (and the nil map) hold the zero value in the model (mapWF)
	okT := dom
	rv := val
	if !isStruct(m.Elem()) {
		f.factsOf(st, rv, m.Elem())
	}
	if x.CommaOk {
		f.regs[x] = Value{Tuple: []Value{{T: rv}, {T: okT}}}
	} else {
		f.regs[x] = Value{T: rv}
	}
}

func (f *Frame) execMapUpdate(st *State, x *ssa.MapUpdate) {
	vc := f.vc
	env := vc.env
	m := f.val(x.Map).T
	k := f.val(x.Key).T
	v := f.val(x.Value)
	f.escapeCheck(v, x)
	vc.runAnchors(f, st, x, false)
	vc.oblige(st, "mapnil", vc.anchorOf(x), Not(Eq(m, IntLit(0))), nil, "assignment to entry in nil map", x.Pos())
	dn, vn, ds, vs := env.mapHeaps(x.Map.Type())
	vc.checkFrame(st, dn, ds, m, x)
	dh := st.Heap(vc, dn, ds)
	vh := st.Heap(vc, vn, vs)
	st.SetHeap(dn, Store(dh, m, Store(Select(dh, m), k, True)))
	st.SetHeap(vn, Store(vh, m, Store(Select(vh, m), k, v.T)))
	vc.runAnchors(f, st, x, true)
}

func (f *Frame) execSlice(st *State, x *ssa.Slice) {
	vc := f.vc
	base := f.val(x.X)
	var lo, hi Term
	lo = IntLit(0)
	if x.Low != nil {
		lo = f.val(x.Low).T
	}
	switch u := x.X.Type().Underlying().(type) {
	case *types.Basic: // string
		hi = SLen(base.T)
		if x.High != nil {
			hi = f.val(x.High).T
		}
		vc.oblige(st, "bounds", vc.anchorOf(x), And(Le(IntLit(0), lo), Le(lo, hi), Le(hi, SLen(base.T))), nil, "string slice bounds out of range", x.Pos())
		f.regs[x] = Value{T: App(SStr, "ssub", base.T, lo, hi)}
	case *types.Slice:
		hi = SlLen(base.T)
		if x.High != nil {
			hi = f.val(x.High).T
		}
		cp := SlCap(base.T)
		if x.Max != nil {
			mx := f.val(x.Max).T
			vc.oblige(st, "bounds", vc.anchorOf(x), And(Le(hi, mx), Le(mx, SlCap(base.T))), nil, "slice max out of range", x.Pos())
			cp = mx
		}
		vc.oblige(st, "bounds", vc.anchorOf(x), And(Le(IntLit(0), lo), Le(lo, hi), Le(hi, SlCap(base.T))), nil, "slice bounds out of range", x.Pos())
		res := vc.freshConst("slc", SSlice)
		vc.assumeIn(st, Eq(res, MkSlice(SlArr(base.T), Add(SlOff(base.T), lo), Sub(hi, lo), Sub(cp, lo))))
		vc.assumeIn(st, Term{fmt.Sprintf("(forall ((k Int)) (! (= (sidx %s k) (sidx %s (+ %s k))) :pattern ((sidx %s k))))", res.S, base.T.S, lo.S, res.S), SBool})
		f.regs[x] = Value{T: res}
	case *types.Pointer: // *array
		arr := u.Elem().Underlying().(*types.Array)
		n := IntLit(arr.Len())
		hi = n
		if x.High != nil {
			hi = f.val(x.High).T
		}
		vc.oblige(st, "bounds", vc.anchorOf(x), And(Le(IntLit(0), lo), Le(lo, hi), Le(hi, n)), nil, "slice bounds out of range", x.Pos())
		f.regs[x] = Value{T: MkSlice(base.T, lo, Sub(hi, lo), Sub(n, lo))}
	default:
		vc.unsupported("slice of %s", typeKey(x.X.Type()))
		f.regs[x] = Value{T: vc.freshConst("sl", SSlice)}
	}
}

func (f *Frame) execMakeSlice(st *State, x *ssa.MakeSlice) {
	vc := f.vc
	ln := f.val(x.Len).T
	cp := f.val(x.Cap).T
	vc.oblige(st, "bounds", vc.anchorOf(x), And(Le(IntLit(0), ln), Le(ln, cp)), nil, "makeslice: len out of range", x.Pos())
	elem := x.Type().Underlying().(*types.Slice).Elem()
	ref := f.allocRef(st, types.NewArray(elem, 0))
	f.zeroArray(st, ref, elem)
	f.regs[x] = Value{T: MkSlice(ref, IntLit(0), ln, cp)}
}

// zeroArray sets all elements of the (fresh) array ref to the zero value.
func (f *Frame) zeroArray(st *State, ref Term, elem types.Type) {
	vc := f.vc
	env := vc.env
	var heaps []struct {
		name string
		sort Sort
		zero Term
		sub  func(Term) Term
	}
	var collect func(t types.Type, sub func(Term) Term)
	collect = func(t types.Type, sub func(Term) Term) {
		if s, ok := t.Underlying().(*types.Struct); ok {
			for i := 0; i < s.NumFields(); i++ {
				i := i
				ft := s.Field(i).Type()
				if isStruct(ft) {
					collect(ft, func(r Term) Term { return env.subRef(t, i, sub(r)) })
					continue
				}
				hn, hs := env.fieldHeap(t, i)
				heaps = append(heaps, struct {
					name string
					sort Sort
					zero Term
					sub  func(Term) Term
				}{hn, hs, env.Zero(ft), sub})
			}
			return
		}
		hn, hs := env.elemHeap(t)
		heaps = append(heaps, struct {
			name string
			sort Sort
			zero Term
			sub  func(Term) Term
		}{hn, hs, env.Zero(t), sub})
	}
	collect(elem, func(r Term) Term { return r })
	for _, h := range heaps {
		old := st.Heap(vc, h.name, h.sort)
		nw := vc.freshConst(h.name, h.sort)
		i := Term{"i", SInt}
		r := Term{"r", SInt}
		target := h.sub(ElemRef(ref, i))
		vc.assumeIn(st, Term{fmt.Sprintf("(forall ((i Int)) (! (= (select %s %s) %s) :pattern ((select %s %s))))", nw.S, target.S, h.zero.S, nw.S, target.S), SBool})
		vc.assumeIn(st, Term{fmt.Sprintf("(forall ((r Int)) (! (=> (not (= (base r) %s)) (= (select %s r) (select %s r))) :pattern ((select %s r))))", ref.S, nw.S, old.S, nw.S), SBool})
		_ = r
		st.SetHeap(h.name, nw)
	}
}

func (f *Frame) execConvert(st *State, x *ssa.Convert) {
	vc := f.vc
	env := vc.env
	v := f.val(x.X)
	from, to := x.X.Type().Underlying(), x.Type().Underlying()
	fb, fok := from.(*types.Basic)
	tb, tok := to.(*types.Basic)
	switch {
	case fok && tok && fb.Info()&types.IsInteger != 0 && tb.Info()&types.IsInteger != 0:
		lo, hi, _ := intRange(to)
		flo, fhi, _ := intRange(from)
		if fits(flo, fhi, lo, hi) {
			f.regs[x] = Value{T: v.T}
			return
		}
		// wrap-around: r = lo + ((v - lo) mod (hi-lo+1))
		r := vc.freshConst("conv", SInt)
		width := fmt.Sprintf("(+ (- %s %s) 1)", BigLit(hi).S, BigLit(lo).S)
		vc.assume(Eq(r, Term{fmt.Sprintf("(+ %s (mod (- %s %s) %s))", BigLit(lo).S, v.T.S, BigLit(lo).S, width), SInt}))
		f.regs[x] = Value{T: r}
	case fok && tok && fb.Info()&types.IsString != 0 && tb.Info()&types.IsString != 0:
		f.regs[x] = v
	case fok && fb.Info()&types.IsString != 0 && isByteSlice(to):
		// []byte(s): fresh array holding the bytes of s
		ref := f.allocRef(st, types.NewArray(types.Typ[types.Uint8], 0))
		sl := MkSlice(ref, IntLit(0), SLen(v.T), SLen(v.T))
		hn, hs := env.elemHeap(types.Typ[types.Uint8])
		old := st.Heap(vc, hn, hs)
		nw := vc.freshConst(hn, hs)
		vc.assumeIn(st, Term{fmt.Sprintf("(forall ((r Int)) (! (=> (not (= (base r) %s)) (= (select %s r) (select %s r))) :pattern ((select %s r))))", ref.S, nw.S, old.S, nw.S), SBool})
		st.SetHeap(hn, nw)
		vc.assumeIn(st, Eq(vc.bytesOf(func(n string, s Sort) Term { return st.Heap(vc, n, s) }, sl), v.T))
		f.regs[x] = Value{T: sl}
	case tok && tb.Info()&types.IsString != 0 && isByteSlice(from):
		f.regs[x] = Value{T: vc.bytesOf(func(n string, s Sort) Term { return st.Heap(vc, n, s) }, v.T)}
	case fok && tok && (fb.Info()&types.IsFloat != 0 || tb.Info()&types.IsFloat != 0):
		name := "conv_" + sanitize(fb.Name()) + "_" + sanitize(tb.Name())
		env.DeclFun(name, []Sort{v.T.Sort}, env.SortOf(x.Type()))
		r := App(env.SortOf(x.Type()), name, v.T)
		if lo, hi, ok := intRange(to); ok {
			vc.assume(And(Le(BigLit(lo), r), Le(r, BigLit(hi))))
		}
		f.regs[x] = Value{T: r}
	case fok && fb.Kind() == types.UnsafePointer, tok && tb.Kind() == types.UnsafePointer:
		f.regs[x] = v
	case fok && tok && fb.Info()&types.IsInteger != 0 && tb.Info()&types.IsString != 0:
		env.DeclFun("rune2str", []Sort{SInt}, SStr)
		f.regs[x] = Value{T: App(SStr, "rune2str", v.T)}
	default:
		if env.SortOf(x.X.Type()) == env.SortOf(x.Type()) {
			f.regs[x] = v
			return
		}
		vc.unsupported("conversion %s -> %s", typeKey(x.X.Type()), typeKey(x.Type()))
		f.regs[x] = Value{T: vc.freshConst("conv", env.SortOf(x.Type()))}
	}
}

func isByteSlice(t types.Type) bool {
	s, ok := t.Underlying().(*types.Slice)
	if !ok {
		return false
	}
	b, ok := s.Elem().Underlying().(*types.Basic)
	return ok && b.Kind() == types.Uint8
}

func fits(flo, fhi, lo, hi string) bool {
	a := constant.MakeFromLiteral(flo, token.INT, 0)
	b := constant.MakeFromLiteral(fhi, token.INT, 0)
	c := constant.MakeFromLiteral(lo, token.INT, 0)
	d := constant.MakeFromLiteral(hi, token.INT, 0)
	if flo[0] == '-' {
		a = constant.UnaryOp(token.SUB, constant.MakeFromLiteral(flo[1:], token.INT, 0), 0)
	}
	if lo[0] == '-' {
		c = constant.UnaryOp(token.SUB, constant.MakeFromLiteral(lo[1:], token.INT, 0), 0)
	}
	return constant.Compare(c, token.LEQ, a) && constant.Compare(b, token.LEQ, d)
}

func (f *Frame) execTypeAssert(st *State, x *ssa.TypeAssert) {
	vc := f.vc
	env := vc.env
	v := f.val(x.X)
	var ok Term
	var res Term
	if isInterface(x.AssertedType) {
		it := x.AssertedType.Underlying().(*types.Interface)
		if it.NumMethods() == 0 {
			ok = Not(Eq(IfTag(v.T), IntLit(0)))
		} else {
			ok = vc.implTerm(IfTag(v.T), x.AssertedType)
		}
		res = v.T
	} else {
		ok = Eq(IfTag(v.T), IntLit(int64(vc.tagOf(x.AssertedType))))
		res = env.unbox(x.AssertedType, IfVal(v.T))
	}
	if x.CommaOk {
		zero := env.Zero(x.AssertedType)
		f.regs[x] = Value{Tuple: []Value{{T: Ite(ok, res, zero), Fn: v.Fn, Bindings: v.Bindings}, {T: ok}}}
		return
	}
	vc.oblige(st, "typeassert", vc.anchorOf(x), ok, nil, "type assertion may fail: "+typeKey(x.AssertedType), x.Pos())
	vc.assumeIn(st, ok)
	f.regs[x] = Value{T: res, Fn: v.Fn, Bindings: v.Bindings}
}

func (f *Frame) execSelect(st *State, x *ssa.Select) {
	vc := f.vc
	if x.Blocking || len(x.States) != 1 || x.States[0].Dir != types.RecvOnly {
		vc.unsupported("select statement in %s", f.fn.Name())
	}
	// non-blocking receive: index is 0 (received: channel closed/cancelled) or -1
	idx := vc.freshConst("sel", SInt)
	vc.assumeIn(st, Or(Eq(idx, IntLit(0)), Eq(idx, IntLit(-1))))
	tup := []Value{{T: idx}, {T: vc.freshConst("selok", SBool)}}
	for _, s := range x.States {
		if s.Dir == types.RecvOnly {
			et := s.Chan.Type().Underlying().(*types.Chan).Elem()
			tup = append(tup, Value{T: vc.freshConst("selv", vc.env.SortOf(et))})
		}
	}
	f.regs[x] = Value{Tuple: tup}
	st.SetHeap("sel!last", idx)
	if len(x.States) == 1 {
		if cv := f.val(x.States[0].Chan); cv.T.Sort == SInt {
			st.SetHeap("sel!chan", cv.T) // the channel the select received from / polled
		}
	}
}
