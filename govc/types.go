package main

// Mapping of Go types to SMT sorts, heap names and zero values.

import (
	"fmt"
	"go/types"
	"strings"
)

func typeKey(t types.Type) string {
	return types.TypeString(t, func(p *types.Package) string { return p.Name() })
}

func typeKeyFull(t types.Type) string {
	return types.TypeString(t, nil)
}

func isStruct(t types.Type) bool {
	_, ok := t.Underlying().(*types.Struct)
	return ok
}

func isArray(t types.Type) bool {
	_, ok := t.Underlying().(*types.Array)
	return ok
}

func isInterface(t types.Type) bool {
	_, ok := t.Underlying().(*types.Interface)
	return ok
}

func isPointer(t types.Type) bool {
	_, ok := t.Underlying().(*types.Pointer)
	return ok
}

// isRefLike reports whether values of t are heap references (Int-sorted refs).
func isRefLike(t types.Type) bool {
	switch t.Underlying().(type) {
	case *types.Pointer, *types.Map, *types.Chan:
		return true
	}
	return false
}

func (e *Env) SortOf(t types.Type) Sort {
	switch u := t.Underlying().(type) {
	case *types.Basic:
		switch {
		case u.Info()&types.IsBoolean != 0:
			return SBool
		case u.Info()&types.IsInteger != 0:
			return SInt
		case u.Info()&types.IsString != 0:
			return SStr
		case u.Info()&types.IsFloat != 0:
			return SFloat
		case u.Kind() == types.UnsafePointer:
			return SInt
		case u.Kind() == types.UntypedNil:
			return SInt
		}
		return SInt
	case *types.Pointer, *types.Map, *types.Chan, *types.Signature:
		return SInt
	case *types.Slice:
		return SSlice
	case *types.Interface:
		return SIface
	case *types.Struct:
		return e.structSort(t)
	case *types.Array:
		// arrays only live behind pointers; by-value arrays are modelled as an
		// opaque Int (unsupported operations on them are flagged by the executor)
		return SInt
	case *types.Tuple:
		return SInt
	case *types.TypeParam:
		return SInt
	}
	return SInt
}

// structSort declares (once) the datatype for a struct type used by value.
func (e *Env) structSort(t types.Type) Sort {
	st := t.Underlying().(*types.Struct)
	name := "S_" + sanitize(typeKey(t))
	if _, isNamed := t.(*types.Named); !isNamed {
		name = "S_anon_" + sanitize(typeKey(t))
	}
	if len(name) > 80 {
		name = fmt.Sprintf("%s_%d", name[:60], e.Tag("struct:"+typeKeyFull(t)))
	}
	if e.declared[name] {
		return Sort(name)
	}
	// declare field sorts first (nested structs)
	var fields []string
	for i := 0; i < st.NumFields(); i++ {
		fs := e.SortOf(st.Field(i).Type())
		fields = append(fields, fmt.Sprintf("(%s.%d %s)", name, i, fs))
	}
	if len(fields) == 0 {
		e.Decl(name, fmt.Sprintf("(declare-datatypes ((%s 0)) (((mk-%s))))", name, name))
	} else {
		e.Decl(name, fmt.Sprintf("(declare-datatypes ((%s 0)) (((mk-%s %s))))", name, name, strings.Join(fields, " ")))
	}
	return Sort(name)
}

func (e *Env) structMk(t types.Type, fields []Term) Term {
	s := e.structSort(t)
	return App(s, "mk-"+string(s), fields...)
}

func (e *Env) structGet(t types.Type, v Term, i int) Term {
	s := e.structSort(t)
	st := t.Underlying().(*types.Struct)
	return App(e.SortOf(st.Field(i).Type()), fmt.Sprintf("%s.%d", s, i), v)
}

// Zero returns the zero value of type t.
func (e *Env) Zero(t types.Type) Term {
	switch u := t.Underlying().(type) {
	case *types.Basic:
		switch {
		case u.Info()&types.IsBoolean != 0:
			return False
		case u.Info()&types.IsString != 0:
			return Term{"str_empty", SStr}
		case u.Info()&types.IsFloat != 0:
			return Term{"float_zero", SFloat}
		}
		return IntLit(0)
	case *types.Slice:
		return NilSlice
	case *types.Interface:
		return NilIface
	case *types.Struct:
		var fs []Term
		for i := 0; i < u.NumFields(); i++ {
			fs = append(fs, e.Zero(u.Field(i).Type()))
		}
		return e.structMk(t, fs)
	}
	return IntLit(0)
}

var (
	NilSlice = Term{"(mk-slice 0 0 0 0)", SSlice}
	NilIface = Term{"(mk-iface 0 0)", SIface}
)

func MkSlice(arr, off, ln, cp Term) Term {
	return App(SSlice, "mk-slice", arr, off, ln, cp)
}
func SlArr(s Term) Term { return App(SInt, "sl-arr", s) }
func SlOff(s Term) Term { return App(SInt, "sl-off", s) }
func SlLen(s Term) Term { return App(SInt, "sl-len", s) }
func SlCap(s Term) Term { return App(SInt, "sl-cap", s) }

func MkIface(tag, val Term) Term { return App(SIface, "mk-iface", tag, val) }
func IfTag(i Term) Term          { return App(SInt, "if-tag", i) }
func IfVal(i Term) Term          { return App(SInt, "if-val", i) }

func Add(a, b Term) Term { return App(SInt, "+", a, b) }
func Sub(a, b Term) Term { return App(SInt, "-", a, b) }
func Le(a, b Term) Term  { return App(SBool, "<=", a, b) }
func Lt(a, b Term) Term  { return App(SBool, "<", a, b) }
func Base(r Term) Term   { return App(SInt, "base", r) }
func RType(r Term) Term  { return App(SInt, "rtype", r) }
func ElemRef(a, i Term) Term {
	return App(SInt, "elemref", a, i)
}
func SLen(s Term) Term    { return App(SInt, "slen", s) }
func SIdx(s, k Term) Term { return App(SInt, "sidx", s, k) }

// ---- heap naming -----------------------------------------------------------

// fieldHeap returns the heap (array) name and sort for field i of struct type st
// (named by owner type key).
func (e *Env) fieldHeap(owner types.Type, i int) (string, Sort) {
	st := owner.Underlying().(*types.Struct)
	f := st.Field(i)
	name := "F_" + sanitize(typeKey(owner)) + "." + sanitize(f.Name())
	if f.Name() == "_" {
		name = fmt.Sprintf("%s%d", name, i)
	}
	e.noteHeapType(name, f.Type(), false)
	return name, ArraySort(SInt, e.SortOf(f.Type()))
}

// cellHeap returns the heap for cells of a non-struct type t.
func (e *Env) cellHeap(t types.Type) (string, Sort) {
	e.noteHeapType("H_"+sanitize(typeKey(t)), t, false)
	return "H_" + sanitize(typeKey(t)), ArraySort(SInt, e.SortOf(t))
}

// elemHeap returns the heap for slice / array elements of a non-struct type t.
// Element cells are kept apart from cells reached through *T pointers: the
// executor flags an element address that escapes as a pointer value.
func (e *Env) elemHeap(t types.Type) (string, Sort) {
	e.noteHeapType("E_"+sanitize(typeKey(t)), t, false)
	return "E_" + sanitize(typeKey(t)), ArraySort(SInt, e.SortOf(t))
}

// noteHeapType remembers the Go type of the values a heap holds.
func (e *Env) noteHeapType(name string, t types.Type, isMap bool) {
	if e.heapTypes == nil {
		e.heapTypes = map[string]heapType{}
	}
	if _, ok := e.heapTypes[name]; !ok {
		e.heapTypes[name] = heapType{t, isMap}
	}
}

type heapType struct {
	t     types.Type
	isMap bool
}

// mapHeaps returns the domain and value heaps for a map type.
func (e *Env) mapHeaps(t types.Type) (dom, val string, ds, vs Sort) {
	m := t.Underlying().(*types.Map)
	k := sanitize(typeKey(m.Key())) + "__" + sanitize(typeKey(m.Elem()))
	ks := e.SortOf(m.Key())
	if e.mapInfo == nil {
		e.mapInfo = map[string]mapInfo{}
	}
	e.noteHeapType("Mv_"+k, m.Elem(), true)
	if _, ok := e.mapInfo["Mv_"+k]; !ok {
		e.mapInfo["Mv_"+k] = mapInfo{dom: "Md_" + k, ds: ArraySort(SInt, ArraySort(ks, SBool)), ks: ks, zero: e.Zero(m.Elem())}
	}
	return "Md_" + k, "Mv_" + k, ArraySort(SInt, ArraySort(ks, SBool)), ArraySort(SInt, ArraySort(ks, e.SortOf(m.Elem())))
}

// subRef is the derived reference of a struct-typed field embedded by value.
func (e *Env) subRef(owner types.Type, i int, r Term) Term {
	st := owner.Underlying().(*types.Struct)
	name := "sub_" + sanitize(typeKey(owner)) + "." + sanitize(st.Field(i).Name())
	if !e.declared[name] {
		e.DeclFun(name, []Sort{SInt}, SInt)
		e.DeclFun(name+"_inv", []Sort{SInt}, SInt)
		e.Axiom(fmt.Sprintf("(forall ((r Int)) (! (and (= (%s_inv (%s r)) r) (= (base (%s r)) (base r)) (not (= (%s r) 0)) (= (refkind (%s r)) %d) (=> (= (rtype r) %d) (= (rtype (%s r)) %d))) :pattern ((%s r))))",
			name, name, name, name, name, 100+e.Tag("refkind:"+name), e.Tag(typeKeyFull(owner)), name, e.Tag(typeKeyFull(st.Field(i).Type())), name))
	}
	return App(SInt, name, r)
}

// fldRef is the encoded pointer value of a scalar field address (&x.f). It only
// exists so that such a pointer has a value; the executor tracks its location.
func (e *Env) fldRef(owner types.Type, i int, r Term) Term {
	st := owner.Underlying().(*types.Struct)
	name := "fld_" + sanitize(typeKey(owner)) + "." + sanitize(st.Field(i).Name())
	if !e.declared[name] {
		e.DeclFun(name, []Sort{SInt}, SInt)
		e.Axiom(fmt.Sprintf("(forall ((r Int)) (! (and (= (base (%s r)) (base r)) (not (= (%s r) 0)) (= (refkind (%s r)) %d)) :pattern ((%s r))))", name, name, name, 100+e.Tag("refkind:"+name), name))
	}
	return App(SInt, name, r)
}

// box/unbox for interface payloads of non-reference dynamic types.
func (e *Env) box(t types.Type, v Term) Term {
	s := e.SortOf(t)
	if s == SInt {
		return v
	}
	if s == SStr {
		return App(SInt, "box_Str", v)
	}
	name := "box_" + sanitize(string(s))
	if !e.declared[name] {
		e.DeclFun(name, []Sort{s}, SInt)
		e.DeclFun("un"+name, []Sort{SInt}, s)
		e.Axiom(fmt.Sprintf("(forall ((x %s)) (! (and (= (un%s (%s x)) x) (= (base (%s x)) 0)) :pattern ((%s x))))", s, name, name, name, name))
	}
	return App(SInt, name, v)
}

func (e *Env) unbox(t types.Type, v Term) Term {
	s := e.SortOf(t)
	if s == SInt {
		return v
	}
	if s == SStr {
		return App(SStr, "unbox_Str", v)
	}
	name := "box_" + sanitize(string(s))
	e.box(t, e.Zero(t)) // ensure declared
	return App(s, "un"+name, v)
}

// intRange returns bounds for a bounded integer type (ok=false for non-integers).
func intRange(t types.Type) (lo, hi string, ok bool) {
	b, isb := t.Underlying().(*types.Basic)
	if !isb || b.Info()&types.IsInteger == 0 {
		return "", "", false
	}
	switch b.Kind() {
	case types.Int8:
		return "-128", "127", true
	case types.Int16:
		return "-32768", "32767", true
	case types.Int32:
		return "-2147483648", "2147483647", true
	case types.Int, types.Int64, types.UntypedInt:
		return "-9223372036854775808", "9223372036854775807", true
	case types.Uint8:
		return "0", "255", true
	case types.Uint16:
		return "0", "65535", true
	case types.Uint32:
		return "0", "4294967295", true
	case types.Uint, types.Uint64, types.Uintptr:
		return "0", "18446744073709551615", true
	}
	return "", "", false
}

// aliveHeap: the set of allocated objects of struct type t (pseudo-heap).
func (e *Env) aliveHeap(t types.Type) (string, Sort) {
	return "A_" + sanitize(typeKey(t)), ArraySort(SInt, SBool)
}

type mapInfo struct {
	dom  string
	ds   Sort
	ks   Sort
	zero Term
}
