package main

import (
	"encoding/json"
	"flag"
	"fmt"
	"os"
	"path/filepath"
	"sort"
	"strings"
	"time"
)

func main() {
	repo := flag.String("repo", "/repo", "repository root")
	verifDir := flag.String("verif", "/verif", "verification directory")
	fnFlag := flag.String("fn", "", "verify a single function (contract key or suffix)")
	prop := flag.String("prop", "", "property id to check")
	tier := flag.String("tier", "quick", "quick|thorough")
	keep := flag.Bool("keep", false, "keep SMT files")
	dump := flag.Bool("dump", false, "dump script of failed obligations")
	verbose := flag.Bool("v", false, "print solver output of failed obligations")
	list := flag.Bool("list", false, "list functions")
	all := flag.Bool("all", false, "verify all functions under contract")
	sweep := flag.String("sweep", "", "zero-annotation safety sweep over functions matching substring")
	replay := flag.String("replay", "", "re-run a stored replay file")
	outDir := flag.String("outdir", "", "directory for evidence/ and replays/ (default: the verif directory)")
	fileFilter := flag.String("file", "", "with -all: only functions declared in these source files (comma list of base names, or dir/ for a package directory)")
	failFast := flag.Bool("failfast", false, "with -all: stop at the first failed obligation")
	dumpNames := flag.Bool("dump-names", false, "write the baseline names of all functions to <verif>/names.json")
	witness := flag.String("witness", "", "run only the witness-search driver of a property against the real code (no proof)")
	flag.Parse()
	if *witness != "" {
		var meta PropMeta
		if d, err := os.ReadFile(filepath.Join(*verifDir, "props", *witness+".json")); err == nil {
			json.Unmarshal(d, &meta)
		}
		if meta.ReplayTest == "" {
			fmt.Println("no witness-search driver registered for", *witness)
			os.Exit(2)
		}
		found, input, out := runReplay(*repo, *verifDir, *witness, meta, 0, "", "")
		if found {
			fmt.Printf("witness search %s: failing input %s\n%s\n", *witness, input, truncate(out, 1500))
			os.Exit(1)
		}
		if !strings.Contains(out, "REPLAY-STATS") {
			fmt.Printf("witness search %s: the driver did not finish (no result)\n%s\n", *witness, truncate(lastLines(out, 25), 3000))
			os.Exit(2)
		}
		fmt.Printf("witness search %s: nothing found\n%s\n", *witness, truncate(lastLines(out, 6), 1500))
		os.Exit(0)
	}

	t0 := time.Now()
	p, err := LoadProg(*repo, *verifDir+"/trusted")
	if err != nil {
		fmt.Fprintln(os.Stderr, "govc: load:", err)
		os.Exit(2)
	}
	p.loadSecs = time.Since(t0).Seconds()
	if *dumpNames {
		if err := p.dumpNames(*verifDir + "/names.json"); err != nil {
			fmt.Fprintln(os.Stderr, "govc:", err)
			os.Exit(2)
		}
		return
	}
	if *list {
		var ks []string
		for k := range p.funcs {
			ks = append(ks, k)
		}
		sort.Strings(ks)
		for _, k := range ks {
			mark := " "
			if p.cs.Funcs[k] != nil {
				mark = "*"
			}
			fmt.Println(mark, k)
		}
		return
	}
	dir, _ := os.MkdirTemp("", "govc")
	defer os.RemoveAll(dir)
	cfg := SolverCfg{Workers: 16, FirstSecs: 3, RaceSecs: 45, Dir: dir, KeepFiles: *keep}
	if v := os.Getenv("GOVC_RACE_SECS"); v != "" {
		fmt.Sscanf(v, "%d", &cfg.RaceSecs)
	}
	if *tier == "thorough" {
		cfg.FirstSecs, cfg.RaceSecs = 5, 90
	}
	if *keep {
		cfg.Dir = "/tmp/govc-keep"
		os.MkdirAll(cfg.Dir, 0o755)
	}
	if *replay != "" {
		rc := replayFile(*repo, *verifDir, *replay)
		os.RemoveAll(dir)
		os.Exit(rc)
	}
	if *prop != "" {
		if *outDir == "" {
			*outDir = *verifDir
		}
		rc := runProperty(p, *prop, *tier, cfg, *verifDir, *outDir)
		os.RemoveAll(dir)
		os.Exit(rc)
	}
	var targets []string
	switch {
	case *fnFlag != "":
		for k := range p.funcs {
			if k == *fnFlag || strings.HasSuffix(k, "::"+*fnFlag) {
				targets = append(targets, k)
			}
		}
	case *all:
		for k, c := range p.cs.Funcs {
			if c.Kind != "func" {
				continue
			}
			if *fileFilter != "" {
				fn := p.funcs[k]
				if fn == nil {
					continue
				}
				base := filepath.Base(p.prog.Fset.Position(fn.Pos()).Filename)
				dir := filepath.Base(filepath.Dir(p.prog.Fset.Position(fn.Pos()).Filename))
				hit := false
				for _, f := range strings.Split(*fileFilter, ",") {
					if f == base || f == dir+"/" {
						hit = true
					}
				}
				if !hit {
					continue
				}
			}
			targets = append(targets, k)
		}
	case *sweep != "":
		for k := range p.funcs {
			if strings.Contains(k, *sweep) {
				targets = append(targets, k)
			}
		}
	}
	sort.Strings(targets)
	bad := 0
	for _, k := range targets {
		fn := p.funcs[k]
		if fn == nil {
			fmt.Println("no such function:", k)
			bad++
			continue
		}
		if len(fn.Blocks) == 0 {
			continue
		}
		vc := VerifyFunction(p, fn, p.cs.Funcs[k])
		Discharge(vc, cfg, vc.obls)
		Discharge(vc, cfg, vc.covers)
		nok := 0
		for _, o := range vc.obls {
			if o.Status == "unsat" {
				nok++
			}
		}
		fmt.Printf("== %s: %d/%d discharged", k, nok, len(vc.obls))
		unreach := map[string]bool{}
		for _, c := range vc.covers {
			if c.Status == "unsat" {
				unreach[c.Anchor] = true
			}
		}
		for _, c := range vc.covers {
			if c.Status != "unsat" {
				continue
			}
			if strings.HasPrefix(c.Anchor, "before:") {
				continue
			}
			if strings.HasPrefix(c.Anchor, "after:") {
				if !unreach["before:"+strings.TrimPrefix(c.Anchor, "after:")] {
					fmt.Printf("  VACUOUS-AFTER-CALL(%s)", strings.TrimPrefix(c.Anchor, "after:"))
				}
				continue
			}
			fmt.Printf("  VACUOUS(%s)", c.Anchor)
		}
		fmt.Println()
		for _, s := range vc.specErrors {
			fmt.Println("   SPEC ERROR:", s)
			bad++
			if *failFast {
				os.RemoveAll(dir)
				os.Exit(1)
			}
		}
		for _, s := range vc.outside {
			fmt.Println("   outside subset:", s)
		}
		for _, s := range vc.notes {
			fmt.Println("   note:", s)
		}
		for _, o := range vc.obls {
			if o.Status == "unsat" && o.Secs > 1.5 {
				fmt.Printf("   slow %s [%s %.2fs]\n", o.Name, o.Solver, o.Secs)
			}
			if o.Status != "unsat" {
				bad++
				if *failFast {
					fmt.Printf("   FAIL %s [%s] %s\n", o.Name, o.Status, o.Desc)
					os.RemoveAll(dir)
					os.Exit(1)
				}
				fmt.Printf("   FAIL %s [%s %s %.2fs] %s (%s:%d)\n", o.Name, o.Solver, o.Status, o.Secs, o.Desc, o.Pos.Filename, o.Pos.Line)
				if *verbose {
					fmt.Println("      " + strings.ReplaceAll(o.Output, "\n", "\n      "))
				}
				if *dump {
					fmt.Println(strings.Join(vc.env.order[:o.Prefix], "\n"))
					fmt.Println("(assert (not " + o.Goal.S + "))")
				}
			}
		}
	}
	fmt.Printf("load %.1fs total %.1fs\n", p.loadSecs, time.Since(t0).Seconds())
	if bad > 0 {
		os.RemoveAll(dir)
		os.Exit(1)
	}
}

func lastLines(s string, n int) string {
	ls := strings.Split(strings.TrimRight(s, "\n"), "\n")
	if len(ls) > n {
		ls = ls[len(ls)-n:]
	}
	return strings.Join(ls, "\n")
}
