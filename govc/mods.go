package main

// Modifies clauses, frame obligations, static modification analysis, and clause
// translation helpers.

import (
	"fmt"
	"go/types"
	"strings"

	"golang.org/x/tools/go/ssa"
)

type modLoc struct {
	heap   string
	sort   Sort
	member func(r Term) Term
	desc   string
}

// trClause translates a clause in a scope, reporting translation errors as
// notes (a clause that cannot be translated makes the function undecided).
func (vc *VC) trClause(sc *Scope, cl *Clause) (t Term, ok bool) {
	defer func() {
		if r := recover(); r != nil {
			if se, isSpec := r.(specError); isSpec {
				vc.specErrors = append(vc.specErrors, fmt.Sprintf("%s:%d: %s: %s", cl.File, cl.Line, cl.Src, se.msg))
				ok = false
				return
			}
			panic(r)
		}
	}()
	t, _ = sc.Tr(cl.E)
	if t.Sort != SBool && cl.Kind != "decreases" {
		vc.specErrors = append(vc.specErrors, fmt.Sprintf("%s:%d: clause is not boolean: %s", cl.File, cl.Line, cl.Src))
		return Term{}, false
	}
	return t, true
}

type goalPart struct {
	t     Term
	label string
	src   string
}

// trGoal translates a clause used as a proof goal, split into its conjuncts
// (conjunctions and boolean spec functions whose body is a conjunction are
// opened, so that a failure names the conjunct).
func (vc *VC) trGoal(sc *Scope, cl *Clause) (parts []goalPart, ok bool) {
	defer func() {
		if r := recover(); r != nil {
			if se, isSpec := r.(specError); isSpec {
				vc.specErrors = append(vc.specErrors, fmt.Sprintf("%s:%d: %s: %s", cl.File, cl.Line, cl.Src, se.msg))
				ok = false
				return
			}
			panic(r)
		}
	}()
	var split func(e Expr, sc *Scope, depth int, hyp Term) []goalPart
	split = func(e Expr, sc *Scope, depth int, hyp Term) []goalPart {
		switch x := e.(type) {
		case EBinary:
			if x.Op == "&&" {
				return append(split(x.X, sc, depth, hyp), split(x.Y, sc, depth, hyp)...)
			}
			if x.Op == "==>" && depth < 4 {
				h, _ := sc.Tr(x.X)
				if h.Sort == SBool {
					return split(x.Y, sc, depth, And(hyp, h))
				}
			}
		case ECall:
			if id, isId := x.Fun.(EIdent); isId && depth < 3 {
				if d, isDef := vc.p.cs.Defines[id.Name]; isDef && d.Body != nil && !d.Opaque && len(x.Args) == len(d.Params) {
					if _, isConj := d.Body.(EBinary); isConj && d.Body.(EBinary).Op == "&&" {
						n := &Scope{vc: vc, pkg: vc.p.typesPkg(d.PkgPath), vars: map[string]scopeVar{}, st: sc.st, old: sc.old, pre: sc.pre, inOld: sc.inOld}
						info := vc.defineInfo(d)
						for i, a := range x.Args {
							t, ta := sc.Tr(a)
							if ta == tNil {
								t = vc.env.Zero(info.paramTypes[i])
							}
							n.vars[d.Params[i].Name] = scopeVar{t, info.paramTypes[i]}
						}
						return split(d.Body, n, depth+1, hyp)
					}
				}
			}
		}
		t, _ := sc.Tr(e)
		if t.Sort != SBool {
			sfail("clause is not boolean")
		}
		return []goalPart{{t: Implies(hyp, t), src: exprString(e)}}
	}
	parts = split(cl.E, sc, 0, True)
	for i := range parts {
		if len(parts) > 1 {
			parts[i].label = fmt.Sprintf(".%d", i)
		}
	}
	return parts, true
}

func (vc *VC) trExpr(sc *Scope, e Expr, what string) (t Term, typ types.Type, ok bool) {
	defer func() {
		if r := recover(); r != nil {
			if se, isSpec := r.(specError); isSpec {
				vc.specErrors = append(vc.specErrors, fmt.Sprintf("%s: %s: %s", what, exprString(e), se.msg))
				ok = false
				return
			}
			panic(r)
		}
	}()
	t, typ = sc.Tr(e)
	return t, typ, true
}

// entryScope: parameters bound to entry values, state = entry state.
func (vc *VC) entryScope() *Scope {
	sc := &Scope{vc: vc, pkg: vc.pkgOf(vc.fn), vars: map[string]scopeVar{}, st: vc.entry, old: vc.entry}
	if vc.topFrame != nil {
		for k, v := range vc.topFrame.vars {
			sc.vars[k] = v
		}
		sc.freeFrame = vc.topFrame
	}
	for k, v := range vc.exitVars {
		sc.vars[k] = v
	}
	return sc
}

func (vc *VC) pkgOf(fn *ssa.Function) *types.Package {
	if fn == nil {
		return nil
	}
	for fn != nil {
		if fn.Pkg != nil {
			return fn.Pkg.Pkg
		}
		if fn.Object() != nil && fn.Object().Pkg() != nil {
			return fn.Object().Pkg()
		}
		fn = fn.Parent()
	}
	return nil
}

// evalMods evaluates modifies designators in scope sc.
func (vc *VC) evalMods(sc *Scope, c *Contract) []modLoc {
	var out []modLoc
	for i, d := range c.Modifies {
		ms, ok := vc.evalDesignator(sc, d)
		if !ok {
			continue
		}
		for k := range ms {
			ms[k].desc = c.ModSrc[i]
		}
		out = append(out, ms...)
	}
	return out
}

func (vc *VC) evalDesignator(sc *Scope, d Expr) (out []modLoc, ok bool) {
	defer func() {
		if r := recover(); r != nil {
			if se, isSpec := r.(specError); isSpec {
				vc.specErrors = append(vc.specErrors, fmt.Sprintf("modifies %s: %s", exprString(d), se.msg))
				ok = false
				return
			}
			panic(r)
		}
	}()
	env := vc.env
	exact := func(x Term) func(Term) Term { return func(r Term) Term { return Eq(r, x) } }
	var allFields func(obj Term, t types.Type)
	allFields = func(obj Term, t types.Type) {
		s := t.Underlying().(*types.Struct)
		for i := 0; i < s.NumFields(); i++ {
			ft := s.Field(i).Type()
			if isStruct(ft) {
				allFields(env.subRef(t, i, obj), ft)
				continue
			}
			hn, hs := env.fieldHeap(t, i)
			out = append(out, modLoc{heap: hn, sort: hs, member: exact(obj)})
		}
	}
	if call, isCall := d.(ECall); isCall {
		if id, isId := call.Fun.(EIdent); isId && id.Name == "elems" && len(call.Args) == 1 {
			// elems(type([]T)): the elements of every []T
			tt, isT := call.Args[0].(ETypeTag)
			if !isT {
				sfail("elems(type([]T)) expected")
			}
			st, isSlice := sc.resolveType(tt.T).Underlying().(*types.Slice)
			if !isSlice {
				sfail("elems() needs a slice type")
			}
			for _, h := range vc.elemHeaps(st.Elem()) {
				out = append(out, modLoc{heap: h.name, sort: h.sort, member: func(r Term) Term { return True }})
			}
			return out, true
		}
		if id, isId := call.Fun.(EIdent); isId && id.Name == "maps" && len(call.Args) == 1 {
			// maps(type(map[K]V)): the content of every map of that type
			tt, isT := call.Args[0].(ETypeTag)
			if !isT {
				sfail("maps(type(map[K]V)) expected")
			}
			mt := sc.resolveType(tt.T)
			if _, isMap := mt.Underlying().(*types.Map); !isMap {
				sfail("maps() needs a map type")
			}
			dn, vn, ds, vs := env.mapHeaps(mt)
			anyMap := func(r Term) Term { return True }
			return []modLoc{{heap: dn, sort: ds, member: anyMap}, {heap: vn, sort: vs, member: anyMap}}, true
		}
	}
	switch x := d.(type) {
	case EField:
		// type-level designator  T.f / T.f.g : field f of every object of type T
		if tt, path, isT := vc.typeDesignator(sc, x); isT {
			anyObj := func(r Term) Term { return True }
			cur := tt
			for k, name := range path {
				_ = k
				var pkg *types.Package
				if n, isNamed := cur.(*types.Named); isNamed {
					pkg = n.Obj().Pkg()
				}
				obj, ipath, _ := types.LookupFieldOrMethod(cur, true, pkg, name)
				fv, isVar := obj.(*types.Var)
				if !isVar || !fv.IsField() {
					if gf := vc.p.ghostField(cur, name); gf != nil && k == len(path)-1 {
						return []modLoc{{heap: gf.heap, sort: gf.sort, member: anyObj}}, true
					}
					sfail("no field %s in %s", name, typeKey(cur))
				}
				for _, idx := range ipath[:len(ipath)-1] {
					cur = cur.Underlying().(*types.Struct).Field(idx).Type()
				}
				idx := ipath[len(ipath)-1]
				ft := cur.Underlying().(*types.Struct).Field(idx).Type()
				if isStruct(ft) && k < len(path)-1 {
					// objects reached through this embedded-by-value field only: they are the sub-references of that field
					env.subRef(cur, idx, IntLit(0))
					kind := 100 + env.Tag("refkind:sub_"+sanitize(typeKey(cur))+"."+sanitize(cur.Underlying().(*types.Struct).Field(idx).Name()))
					anyObj = func(r Term) Term { return Eq(App(SInt, "refkind", r), IntLit(int64(kind))) }
				}
				if k == len(path)-1 {
					if isStruct(ft) {
						sfail("type-level designator must end in a non-struct field")
					}
					hn, hs := env.fieldHeap(cur, idx)
					return []modLoc{{heap: hn, sort: hs, member: anyObj}}, true
				}
				cur = ft
			}
		}
		if ref, rt, isRef := sc.trRef(x.X); isRef {
			if gf := vc.p.ghostField(rt, x.Name); gf != nil {
				return []modLoc{{heap: gf.heap, sort: gf.sort, member: exact(ref)}}, true
			}
		}
		a, t := sc.Tr(x.X)
		if gf := vc.p.ghostField(t, x.Name); gf != nil {
			return []modLoc{{heap: gf.heap, sort: gf.sort, member: exact(a)}}, true
		}
		base := t
		if pt, isPtr := t.Underlying().(*types.Pointer); isPtr {
			base = pt.Elem()
		} else {
			sfail("designator %s: not a pointer", exprString(d))
		}
		if gd := vc.p.ghostFieldDeep(base, x.Name); gd != nil {
			cur, ct := a, base
			for _, idx := range gd.path {
				cur = env.subRef(ct, idx, cur)
				ct = ct.Underlying().(*types.Struct).Field(idx).Type()
			}
			return []modLoc{{heap: gd.g.heap, sort: gd.g.sort, member: exact(cur)}}, true
		}
		var pkg *types.Package
		if n, isNamed := base.(*types.Named); isNamed {
			pkg = n.Obj().Pkg()
		}
		obj, path, _ := types.LookupFieldOrMethod(base, true, pkg, x.Name)
		fv, isVar := obj.(*types.Var)
		if !isVar || !fv.IsField() {
			sfail("no field %s in %s", x.Name, typeKey(base))
		}
		cur, ct := a, base
		for k, idx := range path {
			st := ct.Underlying().(*types.Struct)
			ft := st.Field(idx).Type()
			if k == len(path)-1 {
				if isStruct(ft) {
					allFields(env.subRef(ct, idx, cur), ft)
					return out, true
				}
				hn, hs := env.fieldHeap(ct, idx)
				return []modLoc{{heap: hn, sort: hs, member: exact(cur)}}, true
			}
			if isStruct(ft) {
				cur, ct = env.subRef(ct, idx, cur), ft
				continue
			}
			pt, isPtr := ft.Underlying().(*types.Pointer)
			if !isPtr {
				sfail("cannot traverse %s", st.Field(idx).Name())
			}
			hn, hs := env.fieldHeap(ct, idx)
			cur, ct = Select(sc.heap(hn, hs), cur), pt.Elem()
		}
	case EIndex:
		a, t := sc.Tr(x.X)
		_, star := x.I.(EStar)
		switch u := t.Underlying().(type) {
		case *types.Map:
			dn, vn, ds, vs := env.mapHeaps(t)
			return []modLoc{{heap: dn, sort: ds, member: exact(a)}, {heap: vn, sort: vs, member: exact(a)}}, true
		case *types.Slice:
			var member func(Term) Term
			if star {
				arr := SlArr(a)
				member = func(r Term) Term { return And(Eq(Base(r), Base(arr)), Not(Eq(arr, IntLit(0)))) }
			} else {
				i, _ := sc.Tr(x.I)
				member = exact(SIdx(a, i))
			}
			var heaps []modLoc
			var collect func(tt types.Type)
			collect = func(tt types.Type) {
				if s, isS := tt.Underlying().(*types.Struct); isS {
					for i := 0; i < s.NumFields(); i++ {
						ft := s.Field(i).Type()
						if isStruct(ft) {
							collect(ft)
							continue
						}
						hn, hs := env.fieldHeap(tt, i)
						heaps = append(heaps, modLoc{heap: hn, sort: hs, member: member})
					}
					return
				}
				hn, hs := env.elemHeap(tt)
				heaps = append(heaps, modLoc{heap: hn, sort: hs, member: member})
			}
			collect(u.Elem())
			if !star && isStruct(u.Elem()) {
				sfail("element designator on struct slices: use s[*]")
			}
			return heaps, true
		}
		sfail("bad designator %s", exprString(d))
	case EUnary:
		if x.Op == "*" {
			a, t := sc.Tr(x.X)
			pt, isPtr := t.Underlying().(*types.Pointer)
			if !isPtr {
				sfail("deref of non-pointer in designator")
			}
			if isStruct(pt.Elem()) {
				allFields(a, pt.Elem())
				return out, true
			}
			hn, hs := env.cellHeap(pt.Elem())
			return []modLoc{{heap: hn, sort: hs, member: exact(a)}}, true
		}
	}
	sfail("unsupported designator %s", exprString(d))
	return nil, false
}

// checkFrame emits the frame obligation for a write to heap[idx].
func (vc *VC) checkFrame(st *State, heap string, sort Sort, idx Term, in ssa.Instruction) {
	if vc.entry == nil || (vc.allowAll && !vc.ownFresh()) {
		return
	}
	if vc.allowAll && strings.HasPrefix(heap, "G_") && heap != "G_sync.Once.fired" {
		return // ghost bookkeeping
	}
	var alts []Term
	if arrayKeySort(sort) == SInt {
		alts = append(alts, App(SBool, ">", Base(idx), vc.entry.top))
	} else if arrayKeySort(sort) == SIface {
		alts = append(alts, App(SBool, ">", Base(IfVal(idx)), vc.entry.top))
	}
	for _, m := range vc.modTop {
		if m.heap == heap {
			alts = append(alts, m.member(idx))
		}
	}
	anchor := "exit"
	var pos = vc.fn.Pos()
	if in != nil {
		anchor = vc.anchorOf(in)
		pos = in.Pos()
	}
	vc.oblige(st, "frame", anchor+":"+heap, Or(alts...), vc.frameProps(), "write outside the declared frame (modifies) to "+heap, pos)
}

// ownFresh: the contract says `modifies *` for what callees do, but the function's own writes must hit fresh memory.
func (vc *VC) ownFresh() bool { return vc.c != nil && vc.c.NoShared }

func (vc *VC) frameProps() []string {
	if vc.c == nil {
		return nil
	}
	return vc.c.Props
}

// scanInstr adds the heaps/cells instruction `in` may modify; returns true if
// it may modify anything (unknown call).
func (vc *VC) scanInstr(f *Frame, in ssa.Instruction, heaps map[string]Sort, addCell func(*ssa.Alloc), depth int) bool {
	env := vc.env
	var addType func(t types.Type)
	addType = func(t types.Type) {
		if s, ok := t.Underlying().(*types.Struct); ok {
			for i := 0; i < s.NumFields(); i++ {
				ft := s.Field(i).Type()
				if isStruct(ft) || isArray(ft) {
					addType(ft)
					continue
				}
				hn, hs := env.fieldHeap(t, i)
				heaps[hn] = hs
			}
			return
		}
		if a, ok := t.Underlying().(*types.Array); ok {
			if !isStruct(a.Elem()) && !isArray(a.Elem()) {
				hn, hs := env.elemHeap(a.Elem())
				heaps[hn] = hs
				return
			}
			addType(a.Elem())
			return
		}
		hn, hs := env.cellHeap(t)
		heaps[hn] = hs
	}
	var addAlive func(t types.Type)
	addAlive = func(t types.Type) {
		if s, ok := t.Underlying().(*types.Struct); ok {
			hn, hs := env.aliveHeap(t)
			heaps[hn] = hs
			for i := 0; i < s.NumFields(); i++ {
				if isStruct(s.Field(i).Type()) {
					addAlive(s.Field(i).Type())
				}
			}
		}
	}
	switch x := in.(type) {
	case *ssa.Alloc:
		if !x.Heap && !isArray(x.Type().Underlying().(*types.Pointer).Elem()) {
			if addCell != nil && f != nil {
				addCell(x)
			}
			return false
		}
		addAlive(x.Type().Underlying().(*types.Pointer).Elem())
		if f != nil && f.scalarLocal(x) {
			if addCell != nil {
				addCell(x)
			}
		} else if !(f == nil && !x.Heap && !isStruct(x.Type().Underlying().(*types.Pointer).Elem()) && !isArray(x.Type().Underlying().(*types.Pointer).Elem())) {
			addType(x.Type().Underlying().(*types.Pointer).Elem())
		}
	case *ssa.Store:
		// stores into (fields of) local variables held by value modify a cell, not the heap
		root := x.Addr
		for {
			fa, ok := root.(*ssa.FieldAddr)
			if !ok {
				break
			}
			root = fa.X
		}
		if a, ok := root.(*ssa.Alloc); ok && !a.Heap && !isArray(a.Type().Underlying().(*types.Pointer).Elem()) {
			if addCell != nil && f != nil {
				addCell(a)
			}
			return false
		}
		if fa, ok := x.Addr.(*ssa.FieldAddr); ok {
			owner := fa.X.Type().Underlying().(*types.Pointer).Elem()
			ft := owner.Underlying().(*types.Struct).Field(fa.Field).Type()
			if !isStruct(ft) && !isArray(ft) {
				hn, hs := env.fieldHeap(owner, fa.Field)
				heaps[hn] = hs
				return false
			}
		}
		if _, isElem := x.Addr.(*ssa.IndexAddr); isElem {
			// store into a slice / array element
			addType(types.NewArray(x.Addr.Type().Underlying().(*types.Pointer).Elem(), 0))
			return false
		}
		addType(x.Addr.Type().Underlying().(*types.Pointer).Elem())
	case *ssa.MapUpdate:
		dn, vn, ds, vs := env.mapHeaps(x.Map.Type())
		heaps[dn], heaps[vn] = ds, vs
	case *ssa.MakeMap:
		dn, vn, ds, vs := env.mapHeaps(x.Type())
		heaps[dn], heaps[vn] = ds, vs
	case *ssa.MakeSlice:
		addType(types.NewArray(x.Type().Underlying().(*types.Slice).Elem(), 0))
	case *ssa.Convert:
		if isByteSlice(x.Type()) {
			addType(types.NewArray(types.Typ[types.Uint8], 0))
		}
	case *ssa.Next:
		if it := vc.iters[x.Iter]; it != nil {
			mt := it.mt.Underlying().(*types.Map)
			heaps[it.visited] = ArraySort(env.SortOf(mt.Key()), SBool)
		}
	case ssa.CallInstruction:
		if ca := vc.callAsFor(in); ca != nil {
			if m := vc.p.cs.Funcs["model::"+ca.Model]; m != nil && !m.ModAll {
				sc := &Scope{vc: vc, pkg: vc.p.typesPkg(m.PkgPath), vars: map[string]scopeVar{}, st: &State{heaps: map[string]Term{}, locals: map[cellKey]Term{}, gen: -1, top: IntLit(0), pc: True}}
				sc.old = sc.st
				for _, q := range m.ModelParams {
					if t, err := vc.p.ResolveType(q.T, sc.pkg); err == nil {
						srt := vc.env.SortOf(t)
						cn := "dummy_" + sanitize(q.Name) + "_" + sanitize(string(srt))
						vc.declConst(cn, srt)
						sc.vars[q.Name] = scopeVar{Term{cn, srt}, t}
					}
				}
				for _, ml := range vc.evalMods(sc, m) {
					heaps[ml.heap] = ml.sort
				}
				return false
			}
		}
		hs, a := vc.callMods(f, x.Common(), depth)
		for k, v := range hs {
			heaps[k] = v
		}
		if g, ok := x.Common().Value.(*ssa.Function); ok && vc.p.inModule(g) {
			for _, t := range vc.p.allocTypes(g) {
				addAlive(t)
			}
		}
		return a
	}
	return false
}

// callMods: heaps a call may modify (static over-approximation).
func (vc *VC) callMods(f *Frame, c *ssa.CallCommon, depth int) (map[string]Sort, bool) {
	heaps := map[string]Sort{}
	env := vc.env
	addContract := func(ct *Contract, sig *types.Signature, recv types.Type) bool {
		if ct.ModAll {
			return true
		}
		if len(ct.Modifies) == 0 {
			return false
		}
		// dry-run evaluation of designators with dummy parameters
		sc := &Scope{vc: vc, pkg: vc.p.typesPkg(ct.PkgPath), vars: map[string]scopeVar{}, st: &State{heaps: map[string]Term{}, locals: map[cellKey]Term{}, gen: -1, top: IntLit(0), pc: True}}
		sc.old = sc.st
		vc.bindDummyParams(sc, ct, sig, recv)
		for _, m := range vc.evalMods(sc, ct) {
			heaps[m.heap] = m.sort
		}
		return false
	}
	if c.IsInvoke() {
		it := c.Value.Type()
		if ic := vc.p.ifaceContract(it, c.Method.Name()); ic != nil {
			return heaps, addContract(ic, c.Signature(), it)
		}
		if vc.p.closedInterface(it) {
			all := false
			for _, ct := range vc.p.implementers(it) {
				fn := vc.p.methodOf(ct, c.Method)
				if fn == nil {
					return heaps, true
				}
				hs, a := vc.fnMods(fn, depth)
				for k, v := range hs {
					heaps[k] = v
				}
				all = all || a
			}
			return heaps, all
		}
		return heaps, true
	}
	switch v := c.Value.(type) {
	case *ssa.Builtin:
		switch v.Name() {
		case "append":
			if s, ok := c.Args[0].Type().Underlying().(*types.Slice); ok {
				var addType func(t types.Type)
				addType = func(t types.Type) {
					if st, ok := t.Underlying().(*types.Struct); ok {
						for i := 0; i < st.NumFields(); i++ {
							ft := st.Field(i).Type()
							if isStruct(ft) {
								addType(ft)
								continue
							}
							hn, hs := env.fieldHeap(t, i)
							heaps[hn] = hs
						}
						return
					}
					hn, hs := env.elemHeap(t)
					heaps[hn] = hs
				}
				addType(s.Elem())
			}
		case "copy":
			if s, ok := c.Args[0].Type().Underlying().(*types.Slice); ok {
				hn, hs := env.elemHeap(s.Elem())
				heaps[hn] = hs
			}
		case "delete":
			dn, vn, ds, vs := env.mapHeaps(c.Args[0].Type())
			heaps[dn], heaps[vn] = ds, vs
		}
		return heaps, false
	case *ssa.Function:
		return vc.fnMods(v, depth)
	case *ssa.MakeClosure:
		return vc.fnMods(v.Fn.(*ssa.Function), depth)
	}
	// dynamic function value
	if ft := vc.p.functypeContract(c.Value.Type()); ft != nil {
		return heaps, addContract(ft, c.Signature(), nil)
	}
	return heaps, true
}

func (vc *VC) fnMods(fn *ssa.Function, depth int) (map[string]Sort, bool) {
	heaps := map[string]Sort{}
	if ct := vc.p.contractFor(fn); ct != nil {
		if ct.ModAll {
			return heaps, true
		}
		if len(ct.Modifies) == 0 {
			return heaps, false
		}
		sc := &Scope{vc: vc, pkg: vc.p.typesPkg(ct.PkgPath), vars: map[string]scopeVar{}, st: &State{heaps: map[string]Term{}, locals: map[cellKey]Term{}, gen: -1, top: IntLit(0), pc: True}}
		if ct.PkgPath == "" {
			sc.pkg = vc.pkgOf(fn)
		}
		sc.old = sc.st
		vc.bindDummyParams(sc, ct, fn.Signature, nil)
		for _, m := range vc.evalMods(sc, ct) {
			heaps[m.heap] = m.sort
		}
		return heaps, false
	}
	if !vc.p.inModule(fn) || len(fn.Blocks) == 0 || depth > 6 {
		return heaps, true
	}
	all := false
	for _, b := range fn.Blocks {
		for _, in := range b.Instrs {
			if vc.scanInstr(nil, in, heaps, nil, depth+1) {
				all = true
			}
		}
	}
	return heaps, all
}

// bindDummyParams binds parameter names to placeholder constants (used only to
// find out which heaps a modifies clause mentions).
func (vc *VC) bindDummyParams(sc *Scope, ct *Contract, sig *types.Signature, recv types.Type) {
	names, typs := contractParamNames(ct, sig, recv)
	for i, n := range names {
		if n == "" || n == "_" {
			continue
		}
		s := vc.env.SortOf(typs[i])
		c := "dummy_" + sanitize(n) + "_" + sanitize(string(s))
		vc.declConst(c, s)
		sc.vars[n] = scopeVar{Term{c, s}, typs[i]}
	}
}

// contractParamNames returns parameter names (receiver first) and types for a
// contract applied to a signature.
func contractParamNames(ct *Contract, sig *types.Signature, recv types.Type) ([]string, []types.Type) {
	var names []string
	var typs []types.Type
	if sig.Recv() != nil {
		names = append(names, sig.Recv().Name())
		typs = append(typs, sig.Recv().Type())
	} else if recv != nil {
		names = append(names, "this")
		typs = append(typs, recv)
	}
	for i := 0; i < sig.Params().Len(); i++ {
		names = append(names, sig.Params().At(i).Name())
		typs = append(typs, sig.Params().At(i).Type())
	}
	if len(ct.ParamNames) > 0 {
		for i := range names {
			if i < len(ct.ParamNames) {
				names[i] = ct.ParamNames[i]
			}
		}
	}
	return names, typs
}

// typeDesignator recognises T.f.g where T names a struct type (not a variable).
func (vc *VC) typeDesignator(sc *Scope, x EField) (types.Type, []string, bool) {
	var names []string
	var e Expr = x
	for {
		f, ok := e.(EField)
		if !ok {
			break
		}
		names = append([]string{f.Name}, names...)
		e = f.X
	}
	id, ok := e.(EIdent)
	if !ok {
		return nil, nil, false
	}
	if _, isVar := sc.vars[id.Name]; isVar {
		return nil, nil, false
	}
	if sc.frame != nil && sc.frame.hasLocal(id.Name) {
		return nil, nil, false
	}
	t, err := vc.p.ResolveType(&TypeExpr{Kind: "name", Name: id.Name}, sc.pkg)
	if err != nil || !isStruct(t) {
		// pkg.T.f
		if tp := vc.p.pkgByName[id.Name]; tp != nil && len(names) >= 2 {
			if tn, ok := tp.Scope().Lookup(names[0]).(*types.TypeName); ok && isStruct(tn.Type()) {
				return tn.Type(), names[1:], true
			}
		}
		return nil, nil, false
	}
	return t, names, true
}
