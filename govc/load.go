package main

// Loading of /repo (current working tree, -tags=verif), SSA construction in
// naive form, and lookup tables.

import (
	"fmt"
	"go/token"
	"go/types"
	"os"
	"path/filepath"
	"sort"
	"strings"

	"golang.org/x/tools/go/packages"
	"golang.org/x/tools/go/ssa"
	"golang.org/x/tools/go/ssa/ssautil"
)

type ghostInfo struct {
	g     *GhostField
	owner types.Type
	typ   types.Type
	heap  string
	sort  Sort
}

type ghostDeep struct {
	g    *ghostInfo
	path []int
}

type Prog struct {
	repo         string
	pkgs         []*packages.Package
	prog         *ssa.Program
	spkgs        []*ssa.Package
	modPkgs      map[string]*ssa.Package // module packages by path
	cs           *ContractSet
	funcs        map[string]*ssa.Function // pkgpath::RelString
	pkgByName    map[string]*types.Package
	pkgByPath    map[string]*types.Package
	ghosts       []*ghostInfo
	defHeapCache map[string][]heapRef
	modulePath   string
	reachCache   map[*ssa.Function]map[*ssa.Function]bool
	implCache    map[string][]types.Type
	loadSecs     float64
	allocCache   map[*ssa.Function]map[string]types.Type
	baseNames    map[string]FuncNames
	aliasCache   map[*ssa.Function]*nameAlias
}

func LoadProg(repo, trustedDir string) (*Prog, error) {
	cfg := &packages.Config{
		Mode:       packages.LoadAllSyntax | packages.NeedModule,
		Dir:        repo,
		BuildFlags: []string{"-tags=verif"},
		Env:        append(os.Environ(), "GOFLAGS=-mod=mod", "GOPROXY=off", "GOSUMDB=off", "GOTOOLCHAIN=local"),
	}
	pkgs, err := packages.Load(cfg, "./...")
	if err != nil {
		return nil, err
	}
	var errs []string
	packages.Visit(pkgs, nil, func(p *packages.Package) {
		for _, e := range p.Errors {
			errs = append(errs, e.Error())
		}
	})
	if len(errs) > 0 {
		return nil, fmt.Errorf("load errors:\n%s", strings.Join(errs, "\n"))
	}
	prog, spkgs := ssautil.Packages(pkgs, ssa.NaiveForm)
	p := &Prog{repo: repo, pkgs: pkgs, prog: prog, spkgs: spkgs, modPkgs: map[string]*ssa.Package{}, funcs: map[string]*ssa.Function{},
		pkgByName: map[string]*types.Package{}, pkgByPath: map[string]*types.Package{}, defHeapCache: map[string][]heapRef{}, implCache: map[string][]types.Type{}}
	for i, sp := range spkgs {
		if sp == nil {
			continue
		}
		sp.Build()
		p.modPkgs[sp.Pkg.Path()] = sp
		if pkgs[i].Module != nil {
			p.modulePath = pkgs[i].Module.Path
		}
	}
	packages.Visit(pkgs, nil, func(pk *packages.Package) {
		if pk.Types == nil {
			return
		}
		p.pkgByPath[pk.Types.Path()] = pk.Types
		// short names: module packages win; then first seen
		if _, ok := p.pkgByName[pk.Types.Name()]; !ok {
			p.pkgByName[pk.Types.Name()] = pk.Types
		}
	})
	for _, sp := range p.modPkgs {
		p.pkgByName[sp.Pkg.Name()] = sp.Pkg
	}
	// disambiguate a few std names that clash with module-internal ones
	for _, path := range []string{"net/http", "net/url", "strings", "bytes", "regexp", "reflect", "sync", "sync/atomic", "strconv", "fmt", "errors", "path", "io", "time", "os", "context"} {
		if tp, ok := p.pkgByPath[path]; ok {
			if _, isMod := p.modPkgs[p.pkgByName[tp.Name()].Path()]; !isMod {
				p.pkgByName[tp.Name()] = tp
			}
		}
	}
	if tp, ok := p.pkgByPath["context"]; ok {
		p.pkgByName["gocontext"] = tp
	}
	if tp, ok := p.pkgByPath["github.com/pkg/errors"]; ok {
		p.pkgByName["pkgerrors"] = tp
	}
	// index functions (including anonymous ones and methods)
	for _, sp := range p.modPkgs {
		for fn := range ssautil.AllFunctions(prog) {
			if fn.Pkg == sp {
				p.funcs[sp.Pkg.Path()+"::"+fn.RelString(sp.Pkg)] = fn
			}
		}
	}
	cs, err := LoadContracts(repo, trustedDir, func(dir string) string {
		rel, _ := filepath.Rel(repo, dir)
		if rel == "." {
			return p.modulePath
		}
		return p.modulePath + "/" + filepath.ToSlash(rel)
	})
	if err != nil {
		return nil, err
	}
	p.cs = cs
	p.loadBaseNames(filepath.Dir(trustedDir))
	p.instantiateDefaults()
	if err := p.resolveGhosts(); err != nil {
		return nil, err
	}
	return p, nil
}

// instantiateDefaults gives every exported method of a type with a `methods` default contract, and without a contract of
// its own, a copy of the default (so that new API surface of a type that carries an invariant is verified against it).
func (p *Prog) instantiateDefaults() {
	var dkeys []string
	for k, c := range p.cs.Funcs {
		if c.Kind == "methods" {
			dkeys = append(dkeys, k)
		}
	}
	sort.Strings(dkeys)
	var fkeys []string
	for k := range p.funcs {
		fkeys = append(fkeys, k)
	}
	sort.Strings(fkeys)
	for _, dk := range dkeys {
		d := p.cs.Funcs[dk]
		prefix := d.PkgPath + "::" + d.Target + "."
		for _, fk := range fkeys {
			fn := p.funcs[fk]
			if !strings.HasPrefix(fk, prefix) || fn.Signature.Recv() == nil || fn.Synthetic != "" || len(fn.Blocks) == 0 {
				continue
			}
			name := fk[len(prefix):]
			if strings.ContainsAny(name, "$#") || !token.IsExported(name) {
				continue
			}
			if _, own := p.cs.Funcs[fk]; own {
				continue
			}
			c := *d
			c.Kind = "func"
			c.Target = d.Target + "." + name
			c.RecvAlias = d.ParamNames[0]
			c.ParamNames = nil
			c.FromDefault = dk
			c.Loops = map[int]*LoopSpec{}
			p.cs.Funcs[fk] = &c
			p.cs.Order = append(p.cs.Order, fk)
		}
	}
}

func (p *Prog) typesPkg(path string) *types.Package {
	if path == "" {
		return p.pkgByPath[p.modulePath]
	}
	return p.pkgByPath[path]
}

func (p *Prog) resolveGhosts() error {
	for _, g := range p.cs.Ghosts {
		pkg := p.typesPkg(g.Pkg)
		ot, err := p.ResolveType(g.OwnerT, pkg)
		if err != nil {
			return fmt.Errorf("ghost field %s.%s: %v", g.Owner, g.Name, err)
		}
		ft, err := p.ResolveType(g.T, pkg)
		if err != nil {
			return fmt.Errorf("ghost field %s.%s: %v", g.Owner, g.Name, err)
		}
		env := NewEnv()
		idx := SInt
		if isInterface(ot) {
			idx = SIface
		}
		var vs Sort
		if m, ok := ft.(*types.Map); ok {
			// ghost map-typed fields are mathematical maps (SMT arrays)
			vs = ArraySort(env.SortOf(m.Key()), env.SortOf(m.Elem()))
		} else {
			vs = env.SortOf(ft)
		}
		p.ghosts = append(p.ghosts, &ghostInfo{g: g, owner: ot, typ: ft, heap: "G_" + sanitize(typeKey(ot)) + "." + g.Name, sort: ArraySort(idx, vs)})
	}
	return nil
}

// ghostField finds a ghost field declared for (pointer to) type t.
func (p *Prog) ghostField(t types.Type, name string) *ghostInfo {
	base := t
	if pt, ok := t.Underlying().(*types.Pointer); ok {
		base = pt.Elem()
	}
	for _, g := range p.ghosts {
		if g.g.Name != name {
			continue
		}
		if types.Identical(g.owner, base) || types.Identical(g.owner, t) {
			return g
		}
		// an interface that embeds the owner interface shares its ghost fields
		if _, ok := g.owner.Underlying().(*types.Interface); ok && isInterface(t) {
			return g
		}
	}
	return nil
}

// ghostFieldDeep finds a ghost field on a struct embedded by value in base.
func (p *Prog) ghostFieldDeep(base types.Type, name string) *ghostDeep {
	st, ok := base.Underlying().(*types.Struct)
	if !ok {
		return nil
	}
	for i := 0; i < st.NumFields(); i++ {
		f := st.Field(i)
		if !f.Embedded() || !isStruct(f.Type()) {
			continue
		}
		if g := p.ghostField(f.Type(), name); g != nil {
			return &ghostDeep{g, []int{i}}
		}
		if d := p.ghostFieldDeep(f.Type(), name); d != nil {
			return &ghostDeep{d.g, append([]int{i}, d.path...)}
		}
	}
	return nil
}

func (p *Prog) globalFor(v *types.Var) *ssa.Global {
	if v.Pkg() == nil {
		return nil
	}
	sp := p.prog.Package(v.Pkg())
	if sp == nil {
		return nil
	}
	g, _ := sp.Members[v.Name()].(*ssa.Global)
	return g
}

// funcKey returns the contract key of an SSA function.
func (p *Prog) funcKey(fn *ssa.Function) string {
	if fn.Pkg == nil {
		// synthetic wrapper or instantiated generic
		if fn.Synthetic != "" && fn.Object() != nil && fn.Object().Pkg() != nil {
			return fn.Object().Pkg().Path() + "::" + fn.RelString(fn.Object().Pkg())
		}
		return "::" + fn.String()
	}
	return fn.Pkg.Pkg.Path() + "::" + fn.RelString(fn.Pkg.Pkg)
}

// shortName is the pkgname.Func or (*pkgname.T).Method form used by trusted
// specs.
func shortFuncName(fn *ssa.Function) string {
	if fn.Signature.Recv() != nil {
		rt := fn.Signature.Recv().Type()
		return "(" + typeKey(rt) + ")." + fn.Name()
	}
	if fn.Pkg != nil {
		return fn.Pkg.Pkg.Name() + "." + fn.Name()
	}
	if fn.Object() != nil && fn.Object().Pkg() != nil {
		return fn.Object().Pkg().Name() + "." + fn.Name()
	}
	return fn.String()
}

func (p *Prog) contractFor(fn *ssa.Function) *Contract {
	if c, ok := p.cs.Funcs[p.funcKey(fn)]; ok {
		return c
	}
	if c, ok := p.cs.Funcs[shortFuncName(fn)]; ok {
		return c
	}
	return nil
}

func (p *Prog) trustedByShort(key string) *Contract {
	if c, ok := p.cs.Funcs[key]; ok {
		return c
	}
	// in-module pure function named pkg.Func
	if fn := p.externalByShort(key); fn != nil {
		return p.cs.Funcs[p.funcKey(fn)]
	}
	return nil
}

func (p *Prog) externalByShort(key string) *ssa.Function {
	j := strings.Index(key, ".")
	if j < 0 {
		return nil
	}
	tp := p.pkgByName[key[:j]]
	if tp == nil {
		return nil
	}
	sp := p.prog.Package(tp)
	if sp == nil {
		return nil
	}
	return sp.Func(key[j+1:])
}

func (p *Prog) inModule(fn *ssa.Function) bool {
	if fn.Pkg != nil {
		_, ok := p.modPkgs[fn.Pkg.Pkg.Path()]
		return ok
	}
	if fn.Object() != nil && fn.Object().Pkg() != nil {
		_, ok := p.modPkgs[fn.Object().Pkg().Path()]
		return ok
	}
	if fn.Parent() != nil {
		return p.inModule(fn.Parent())
	}
	return false
}

// implementers returns the concrete types of the module (T and *T for named T)
// that implement interface it.
func (p *Prog) implementers(it types.Type) []types.Type {
	key := typeKeyFull(it)
	if r, ok := p.implCache[key]; ok {
		return r
	}
	iface := it.Underlying().(*types.Interface)
	var out []types.Type
	var paths []string
	for path := range p.modPkgs {
		paths = append(paths, path)
	}
	sort.Strings(paths)
	for _, path := range paths {
		sc := p.modPkgs[path].Pkg.Scope()
		for _, name := range sc.Names() {
			tn, ok := sc.Lookup(name).(*types.TypeName)
			if !ok || tn.IsAlias() {
				continue
			}
			t := tn.Type()
			if isInterface(t) {
				continue
			}
			if n, ok := t.(*types.Named); ok && n.TypeParams().Len() > 0 {
				continue
			}
			if types.Implements(t, iface) {
				out = append(out, t)
			} else if pt := types.NewPointer(t); types.Implements(pt, iface) {
				out = append(out, pt)
			}
		}
	}
	p.implCache[key] = out
	return out
}

// closedInterface: an interface whose implementations must live in this module
// (it has an unexported method, or is declared in an internal package / is
// unexported itself).
func (p *Prog) closedInterface(it types.Type) bool {
	iface, ok := it.Underlying().(*types.Interface)
	if !ok {
		return false
	}
	n, isNamed := it.(*types.Named)
	if !isNamed || n.Obj().Pkg() == nil {
		return false
	}
	if _, inMod := p.modPkgs[n.Obj().Pkg().Path()]; !inMod {
		return false
	}
	for i := 0; i < iface.NumMethods(); i++ {
		if !iface.Method(i).Exported() {
			return true
		}
	}
	return false
}

// moduleType: a named struct type declared in this module.
func (p *Prog) moduleType(t types.Type) bool {
	n, ok := t.(*types.Named)
	if !ok || n.Obj().Pkg() == nil {
		return false
	}
	_, in := p.modPkgs[n.Obj().Pkg().Path()]
	return in && isStruct(t)
}

// allocTypes: struct types of which fn (transitively, within the module) may
// allocate objects. Computed once for all module functions as a fixpoint.
func (p *Prog) allocTypes(fn *ssa.Function) map[string]types.Type {
	if p.allocCache == nil {
		p.allocCache = map[*ssa.Function]map[string]types.Type{}
		callees := map[*ssa.Function][]*ssa.Function{}
		var all []*ssa.Function
		seen := map[*ssa.Function]bool{}
		var visit func(g *ssa.Function)
		visit = func(g *ssa.Function) {
			if g == nil || seen[g] || !p.inModule(g) {
				return
			}
			seen[g] = true
			all = append(all, g)
			out := map[string]types.Type{}
			p.allocCache[g] = out
			var addT func(t types.Type)
			addT = func(t types.Type) {
				if s, ok := t.Underlying().(*types.Struct); ok {
					out[typeKeyFull(t)] = t
					for i := 0; i < s.NumFields(); i++ {
						if isStruct(s.Field(i).Type()) {
							addT(s.Field(i).Type())
						}
					}
				}
			}
			for _, b := range g.Blocks {
				for _, in := range b.Instrs {
					switch x := in.(type) {
					case *ssa.Alloc:
						addT(x.Type().Underlying().(*types.Pointer).Elem())
					case *ssa.MakeClosure:
						callees[g] = append(callees[g], x.Fn.(*ssa.Function))
						visit(x.Fn.(*ssa.Function))
					case ssa.CallInstruction:
						c := x.Common()
						if c.IsInvoke() {
							if p.closedInterface(c.Value.Type()) {
								for _, ct := range p.implementers(c.Value.Type()) {
									if m := p.methodOf(ct, c.Method); m != nil {
										callees[g] = append(callees[g], m)
										visit(m)
									}
								}
							}
							continue
						}
						if h, ok := c.Value.(*ssa.Function); ok {
							callees[g] = append(callees[g], h)
							visit(h)
						}
					}
				}
			}
		}
		for _, g := range p.funcs {
			visit(g)
		}
		for changed := true; changed; {
			changed = false
			for _, g := range all {
				for _, h := range callees[g] {
					for k, v := range p.allocCache[h] {
						if _, ok := p.allocCache[g][k]; !ok {
							p.allocCache[g][k] = v
							changed = true
						}
					}
				}
			}
		}
	}
	if r, ok := p.allocCache[fn]; ok {
		return r
	}
	return map[string]types.Type{}
}

// reachableStructs adds the module struct types reachable from t through
// pointers, slices, maps and fields.
func (p *Prog) reachableStructs(t types.Type, out map[string]types.Type, depth int) {
	if depth > 6 {
		return
	}
	switch u := t.Underlying().(type) {
	case *types.Pointer:
		p.reachableStructs(u.Elem(), out, depth+1)
	case *types.Slice:
		p.reachableStructs(u.Elem(), out, depth+1)
	case *types.Map:
		p.reachableStructs(u.Elem(), out, depth+1)
	case *types.Struct:
		if !p.moduleType(t) {
			return
		}
		k := typeKeyFull(t)
		if _, ok := out[k]; ok {
			return
		}
		out[k] = t
		for i := 0; i < u.NumFields(); i++ {
			p.reachableStructs(u.Field(i).Type(), out, depth+1)
		}
	}
}
