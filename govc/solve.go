package main

// Solver portfolio: one query per obligation, run in parallel.

import (
	"bytes"
	"context"
	"fmt"
	"os"
	"os/exec"
	"path/filepath"
	"strings"
	"sync"
	"time"
)

type SolverCfg struct {
	Workers   int
	FirstSecs int // z3 4.8 first attempt
	RaceSecs  int // z3-new / cvc5 race
	Dir       string
	KeepFiles bool
}

const z3Header = `(set-option :smt.mbqi false)
(set-option :smt.auto_config false)
(set-option :auto_config false)
(set-option :model.compact false)
`

const z3HeaderMBQI = `(set-option :smt.auto_config false)
(set-option :auto_config false)
`

const cvc5Header = `(set-logic ALL)
`

type solverRun struct {
	name   string
	status string
	out    string
	secs   float64
}

func runSolver(ctx context.Context, name string, args []string, file string) solverRun {
	t0 := time.Now()
	cmd := exec.CommandContext(ctx, args[0], append(args[1:], file)...)
	var buf bytes.Buffer
	cmd.Stdout = &buf
	cmd.Stderr = &buf
	cmd.Run()
	out := buf.String()
	first := strings.TrimSpace(strings.SplitN(out, "\n", 2)[0])
	status := "error"
	switch {
	case first == "unsat":
		status = "unsat"
	case first == "sat":
		status = "sat"
	case first == "unknown":
		status = "unknown"
	case first == "timeout" || strings.Contains(first, "timeout") || ctx.Err() != nil:
		status = "timeout"
	case strings.Contains(out, "interrupted by timeout") || strings.Contains(out, "cvc5 interrupted"):
		status = "timeout"
	}
	return solverRun{name, status, out, time.Since(t0).Seconds()}
}

// Discharge runs all obligations (and covers) of a VC.
func Discharge(vc *VC, cfg SolverCfg, obls []*Obligation) {
	var jobs []job
	for _, o := range obls {
		jobs = append(jobs, job{vc, o})
	}
	DischargeAll(cfg, jobs)
}

type job struct {
	vc *VC
	o  *Obligation
}

var jobSeq int64

// DischargeAll runs obligations of several functions through one worker pool.
func DischargeAll(cfg SolverCfg, jobs []job) {
	var wg sync.WaitGroup
	sem := make(chan struct{}, cfg.Workers)
	for _, j := range jobs {
		wg.Add(1)
		sem <- struct{}{}
		jobSeq++
		go func(i int64, j job) {
			defer wg.Done()
			defer func() { <-sem }()
			dischargeOne(j.vc, cfg, int(i), j.o)
		}(jobSeq, j)
	}
	wg.Wait()
}

func dischargeOne(vc *VC, cfg SolverCfg, idx int, o *Obligation) {
	body := "; obligation " + o.Name + "\n" + strings.Join(vc.env.order[:o.Prefix], "\n") + "\n(assert (not " + o.Goal.S + "))\n(check-sat)\n"
	base := filepath.Join(cfg.Dir, fmt.Sprintf("%s_%d", sanitize(vc.funcName()), idx))
	write := func(suffix, header string) string {
		p := base + suffix
		os.WriteFile(p, []byte(header+body), 0o644)
		return p
	}
	fz := write(".z3.smt2", z3Header)
	first := cfg.FirstSecs
	if o.Cover {
		// reachability checks only need "not provably unreachable"
		first = 2
	}
	ctx, cancel := context.WithTimeout(context.Background(), time.Duration(first+2)*time.Second)
	r := runSolver(ctx, "z3-4.8.12", []string{"z3", fmt.Sprintf("-T:%d", first)}, fz)
	cancel()
	if o.Cover {
		o.Status, o.Solver, o.Secs, o.Output = r.status, r.name, r.secs, truncate(r.out, 200)
		if !cfg.KeepFiles {
			os.Remove(fz)
		}
		return
	}
	total := r.secs
	outs := []solverRun{r}
	if r.status != "unsat" && cfg.RaceSecs > 0 {
		fc := write(".cvc5.smt2", cvc5Header)
		ctx2, cancel2 := context.WithTimeout(context.Background(), time.Duration(cfg.RaceSecs+2)*time.Second)
		ch := make(chan solverRun, 3)
		go func() { ch <- runSolver(ctx2, "z3-5.1.0", []string{"z3-new", fmt.Sprintf("-T:%d", cfg.RaceSecs)}, fz) }()
		go func() {
			ch <- runSolver(ctx2, "cvc5-1.0", []string{"cvc5", fmt.Sprintf("--tlimit=%d", cfg.RaceSecs*1000), "--no-interactive"}, fc)
		}()
		n := 2
		if o.Cover {
			n = 2
		}
		for k := 0; k < n; k++ {
			rr := <-ch
			outs = append(outs, rr)
			total += rr.secs
			if rr.status == "unsat" || (o.Cover && rr.status == "sat") {
				r = rr
				cancel2()
				break
			}
			if r.status == "error" || (r.status != "sat" && rr.status == "sat") {
				r = rr
			}
		}
		cancel2()
	}
	o.Status, o.Solver, o.Secs = r.status, r.name, total
	var sb strings.Builder
	for _, x := range outs {
		fmt.Fprintf(&sb, "[%s %s %.2fs] %s\n", x.name, x.status, x.secs, truncate(strings.TrimSpace(x.out), 400))
	}
	o.Output = sb.String()
	if !cfg.KeepFiles {
		os.Remove(fz)
		os.Remove(base + ".cvc5.smt2")
	}
}

// ModelFor re-runs a failed obligation asking z3 for a model of selected terms.
func ModelFor(vc *VC, o *Obligation, cfg SolverCfg, terms []string) string {
	body := strings.Join(vc.env.order[:o.Prefix], "\n") + "\n(assert (not " + o.Goal.S + "))\n(check-sat)\n"
	if len(terms) > 0 {
		body += "(get-value (" + strings.Join(terms, " ") + "))\n"
	}
	p := filepath.Join(cfg.Dir, "model_"+sanitize(o.Name)+".smt2")
	os.WriteFile(p, []byte(z3HeaderMBQI+body), 0o644)
	defer os.Remove(p)
	ctx, cancel := context.WithTimeout(context.Background(), 12*time.Second)
	defer cancel()
	r := runSolver(ctx, "z3-new", []string{"z3-new", "-T:10"}, p)
	return r.out
}
