package main

// Symbolic state, verification context, obligations.

import (
	"fmt"
	"go/token"
	"go/types"
	"sort"
	"strings"

	"golang.org/x/tools/go/ssa"
)

type cellKey struct {
	f *Frame
	a *ssa.Alloc
}

type State struct {
	pc     Term
	locals map[cellKey]Term
	heaps  map[string]Term
	gen    int
	top    Term
}

func (s *State) clone() *State {
	n := &State{pc: s.pc, gen: s.gen, top: s.top, locals: make(map[cellKey]Term, len(s.locals)), heaps: make(map[string]Term, len(s.heaps))}
	for k, v := range s.locals {
		n.locals[k] = v
	}
	for k, v := range s.heaps {
		n.heaps[k] = v
	}
	return n
}

// Heap returns the current term of a heap, creating the generation constant on
// first use.
func (s *State) Heap(vc *VC, name string, sort Sort) Term {
	if t, ok := s.heaps[name]; ok {
		return t
	}
	c := fmt.Sprintf("%s!g%d", name, s.gen)
	fresh := !vc.env.declared[c]
	vc.declConst(c, sort)
	t := Term{c, sort}
	s.heaps[name] = t
	if fresh && strings.HasPrefix(name, "A_") && s.top.S != "" {
		vc.aliveBound(t, s.top)
	}
	if fresh && strings.HasPrefix(name, "Mv_") {
		vc.mapWF(s, name)
	}
	if fresh && s.top.S != "" {
		vc.storedRefsAllocated(name, t, s.top)
	}
	return t
}

// storedRefsAllocated: references stored in the heap denote allocated objects
// (well-formedness of states; asserted for every fresh heap constant).
func (vc *VC) storedRefsAllocated(name string, h Term, top Term) {
	ht, ok := vc.env.heapTypes[name]
	if !ok {
		return
	}
	var refOf func(v string) string
	switch ht.t.Underlying().(type) {
	case *types.Pointer, *types.Map, *types.Chan:
		refOf = func(v string) string { return v }
	case *types.Slice:
		refOf = func(v string) string { return "(sl-arr " + v + ")" }
	case *types.Interface:
		refOf = func(v string) string { return "(if-val " + v + ")" }
	default:
		return
	}
	ks := arrayKeySort(h.Sort)
	if ht.isMap {
		inner := arrayValSort(h.Sort)
		kk := arrayKeySort(inner)
		sel := fmt.Sprintf("(select (select %s m) k)", h.S)
		guard := "true"
		if ks == SInt {
			guard = fmt.Sprintf("(<= (base m) %s)", top.S)
		}
		vc.assume(Term{fmt.Sprintf("(forall ((m %s) (k %s)) (! (=> %s (<= (base %s) %s)) :pattern (%s)))", ks, kk, guard, refOf(sel), top.S, sel), SBool})
		return
	}
	// only cells of objects that exist (base <= top) are constrained: the content of the heap at addresses not yet
	// allocated is arbitrary - a callee that allocates an object may state in its postcondition what its fields hold,
	// including references allocated after this heap value was taken
	sel := fmt.Sprintf("(select %s r)", h.S)
	guard := "true"
	if ks == SInt {
		guard = fmt.Sprintf("(<= (base r) %s)", top.S)
	}
	vc.assume(Term{fmt.Sprintf("(forall ((r %s)) (! (=> %s (<= (base %s) %s)) :pattern (%s)))", ks, guard, refOf(sel), top.S, sel), SBool})
}

// mapWF: representation invariant of the map model for the current constants of
// a map's heaps: absent keys hold the zero value, the nil map is empty.
func (vc *VC) mapWF(s *State, vn string) {
	mi, ok := vc.env.mapInfo[vn]
	if !ok {
		return
	}
	vt := s.heaps[vn]
	dt := s.Heap(vc, mi.dom, mi.ds)
	vc.assume(Term{fmt.Sprintf("(forall ((m Int) (k %s)) (! (=> (not (select (select %s m) k)) (= (select (select %s m) k) %s)) :pattern ((select (select %s m) k))))", mi.ks, dt.S, vt.S, mi.zero.S, vt.S), SBool})
	vc.assume(Term{fmt.Sprintf("(forall ((k %s)) (! (not (select (select %s 0) k)) :pattern ((select (select %s 0) k))))", mi.ks, dt.S, dt.S), SBool})
}

// aliveBound: objects recorded as alive are allocated (base <= top).
func (vc *VC) aliveBound(alive Term, top Term) {
	vc.assume(Term{fmt.Sprintf("(forall ((r Int)) (! (=> (select %s r) (<= (base r) %s)) :pattern ((select %s r))))", alive.S, top.S, alive.S), SBool})
}

func (s *State) SetHeap(name string, t Term) { s.heaps[name] = t }

type Obligation struct {
	Name   string
	Class  string
	Anchor string
	Props  []string
	Goal   Term // closed formula: (=> pc goal)
	Prefix int  // number of script lines visible to this obligation
	Desc   string
	Pos    token.Position
	Func   string
	// results
	Status  string // unsat (discharged), sat, unknown, timeout, error
	Solver  string
	Secs    float64
	Output  string
	Vacuous bool
	Cover   bool // this is a cover (reachability) check: expected NOT unsat
}

type VC struct {
	ghostAt         ssa.Instruction // the anchor instruction of the ghost statement being executed
	anchorsHit      map[string]bool
	adoptedHit      map[int]bool // loop contracts taken over by loops of inlined helpers
	p               *Prog
	env             *Env
	fn              *ssa.Function
	c               *Contract
	obls            []*Obligation
	notes           []string
	outside         []string // reasons the function is outside the supported subset
	defs            map[string]*defInfo
	trustedUsed     map[string]bool
	inlinedFns      map[string]bool
	calledContracts map[string]bool
	analysing       bool
	frameSeq        int
	anchors         map[ssa.Instruction]string
	globalRefs      map[*ssa.Global]Term
	ifaceAsserted   map[string]types.Type
	concreteTags    map[string]types.Type
	fnTags          map[*ssa.Function]int
	boundTags       map[string]int
	covers          []*Obligation
	modTop          []modLoc // modifies set of the function under verification (entry state)
	entry           *State
	allowAll        bool
	curFrame        *Frame
	iters           map[ssa.Value]*rangeIter
	deferred        []string
	missing         map[string]bool
	specErrors      []string
	topFrame        *Frame
	exitVars        map[string]scopeVar
	lemmaName       string
	axiomsDone      map[string]bool
	cellFns         map[string]*ssa.Function
	recovers        bool
	lemmasUsed      map[string]bool
}

func NewVC(p *Prog, fn *ssa.Function, c *Contract) *VC {
	vc := &VC{p: p, env: NewEnv(), fn: fn, c: c, defs: map[string]*defInfo{}, trustedUsed: map[string]bool{}, inlinedFns: map[string]bool{},
		calledContracts: map[string]bool{}, lemmasUsed: map[string]bool{}, globalRefs: map[*ssa.Global]Term{}, ifaceAsserted: map[string]types.Type{}, concreteTags: map[string]types.Type{}, fnTags: map[*ssa.Function]int{}, adoptedHit: map[int]bool{}}
	vc.env.Decl("godiv", "(define-fun godiv ((a Int) (b Int)) Int (ite (= b 0) 0 (ite (>= a 0) (ite (> b 0) (div a b) (- (div a (- b)))) (ite (> b 0) (- (div (- a) b)) (div (- a) (- b))))))")
	vc.env.Decl("gomod", "(define-fun gomod ((a Int) (b Int)) Int (- a (* b (godiv a b))))")
	vc.env.DeclFun("impl", []Sort{SInt, SInt}, SBool)
	vc.env.DeclFun("fn_code", []Sort{SInt}, SInt)
	vc.env.DeclFun("fn_recv", []Sort{SInt}, SInt)
	return vc
}

func (vc *VC) line(s string) { vc.env.order = append(vc.env.order, s) }

func (vc *VC) declConst(name string, s Sort) {
	vc.env.Decl(name, fmt.Sprintf("(declare-fun %s () %s)", name, s))
}

func (vc *VC) freshConst(prefix string, s Sort) Term {
	n := vc.env.Fresh(prefix)
	vc.declConst(n, s)
	return Term{n, s}
}

func (vc *VC) assume(t Term) {
	if t.S == "true" {
		return
	}
	vc.line("(assert " + t.S + ")")
}

func (vc *VC) assumeIn(st *State, t Term) { vc.assume(Implies(st.pc, t)) }

func (vc *VC) note(f string, a ...interface{}) {
	s := fmt.Sprintf(f, a...)
	for _, n := range vc.notes {
		if n == s {
			return
		}
	}
	vc.notes = append(vc.notes, s)
}

func (vc *VC) unsupported(f string, a ...interface{}) {
	s := fmt.Sprintf(f, a...)
	for _, n := range vc.outside {
		if n == s {
			return
		}
	}
	vc.outside = append(vc.outside, s)
}

func (vc *VC) funcName() string {
	if vc.fn == nil {
		return vc.lemmaName
	}
	pk := ""
	if vc.fn.Pkg != nil {
		pk = vc.fn.Pkg.Pkg.Name() + "."
	}
	return pk + strings.NewReplacer("(", "", ")", "", "*", "").Replace(vc.fn.RelString(vc.fn.Pkg.Pkg))
}

// oblige records a proof obligation: under st.pc, goal must hold.
func (vc *VC) oblige(st *State, class, anchor string, goal Term, props []string, desc string, pos token.Pos) *Obligation {
	if goal.S == "true" {
		return nil
	}
	name := fmt.Sprintf("%s#%s@%s", vc.funcName(), class, anchor)
	// make names unique
	base := name
	n := 1
	for vc.hasObl(name) {
		n++
		name = fmt.Sprintf("%s~%d", base, n)
	}
	if props == nil {
		props = vc.defaultProps(class)
	}
	if vc.c != nil {
		for _, sk := range vc.c.Skip {
			if sk == class || strings.HasPrefix(class+"@"+anchor, sk) && strings.Contains(sk, "@") {
				vc.note("safety class %s is not claimed for %s (contract says skip)", class, vc.funcName())
				return nil
			}
		}
	}
	o := &Obligation{Name: name, Class: class, Anchor: anchor, Props: props, Goal: Implies(st.pc, goal), Prefix: len(vc.env.order), Desc: desc, Func: vc.funcName()}
	if pos.IsValid() {
		o.Pos = vc.p.prog.Fset.Position(pos)
	}
	vc.obls = append(vc.obls, o)
	return o
}

func (vc *VC) hasObl(name string) bool {
	for _, o := range vc.obls {
		if o.Name == name {
			return true
		}
	}
	return false
}

func (vc *VC) defaultProps(class string) []string {
	if vc.c == nil {
		return nil
	}
	switch class {
	case "nil", "bounds", "mapnil", "typeassert", "div", "ovf", "panic":
		if vc.c.SafetySet {
			return vc.c.Safety
		}
	}
	return vc.c.Props
}

func clauseProps(c *Contract, cl *Clause) []string {
	if len(cl.Props) > 0 {
		return cl.Props
	}
	if c != nil {
		return c.Props
	}
	return nil
}

// tagOf returns the type tag for a concrete (non-interface) type and records it
// so that implements-facts can be emitted.
func (vc *VC) tagOf(t types.Type) int {
	key := typeKeyFull(t)
	if _, ok := vc.concreteTags[key]; !ok && !isInterface(t) {
		vc.concreteTags[key] = t
		tag := vc.env.Tag(key)
		for _, ik := range sortedKeys(vc.ifaceAsserted) {
			vc.emitImplFact(tag, t, vc.ifaceAsserted[ik])
		}
		return tag
	}
	return vc.env.Tag(key)
}

func (vc *VC) emitImplFact(tag int, ct types.Type, it types.Type) {
	iface := it.Underlying().(*types.Interface)
	itag := vc.env.Tag("iface:" + typeKeyFull(it))
	if types.Implements(ct, iface) {
		vc.env.Axiom(fmt.Sprintf("(impl %d %d)", tag, itag))
	} else {
		vc.env.Axiom(fmt.Sprintf("(not (impl %d %d))", tag, itag))
	}
}

// implTerm: does the dynamic type with the given tag implement interface it?
func (vc *VC) implTerm(tag Term, it types.Type) Term {
	key := typeKeyFull(it)
	itag := vc.env.Tag("iface:" + key)
	if _, ok := vc.ifaceAsserted[key]; !ok {
		vc.ifaceAsserted[key] = it
		vc.env.Axiom(fmt.Sprintf("(not (impl 0 %d))", itag))
		for _, ck := range sortedKeys(vc.concreteTags) {
			vc.emitImplFact(vc.env.Tag(ck), vc.concreteTags[ck], it)
		}
	}
	return App(SBool, "impl", tag, IntLit(int64(itag)))
}

func (vc *VC) globalRef(g *ssa.Global) Term {
	if t, ok := vc.globalRefs[g]; ok {
		return t
	}
	name := "glob_" + sanitize(g.Pkg.Pkg.Name()+"."+g.Name())
	vc.declConst(name, SInt)
	t := Term{name, SInt}
	vc.globalRefs[g] = t
	// globals are allocated before anything else and are pairwise distinct
	vc.assume(And(Eq(Base(t), t), Lt(IntLit(0), t), Le(t, Term{"top!0", SInt})))
	for og, ot := range vc.globalRefs {
		if og != g {
			vc.assume(Not(Eq(t, ot)))
		}
	}
	return t
}

// bytesOf: the content of a byte slice as a string (function of the byte heap).
func (vc *VC) bytesOf(heap func(string, Sort) Term, sl Term) Term {
	hn, hs := vc.env.elemHeap(types.Typ[types.Uint8])
	if !vc.env.declared["bytesOf"] {
		vc.env.DeclFun("bytesOf", []Sort{hs, SSlice}, SStr)
		vc.env.Axiom(fmt.Sprintf("(forall ((h %s) (s Slice)) (! (=> (>= (sl-len s) 0) (= (slen (bytesOf h s)) (sl-len s))) :pattern ((bytesOf h s))))", hs))
		vc.env.Axiom(fmt.Sprintf("(forall ((h %s) (s Slice) (i Int)) (! (=> (and (<= 0 i) (< i (sl-len s))) (= (sat (bytesOf h s) i) (select h (elemref (sl-arr s) (+ (sl-off s) i))))) :pattern ((sat (bytesOf h s) i))))", hs))
	}
	return App(SStr, "bytesOf", heap(hn, hs), sl)
}

// ---- merging ----------------------------------------------------------------

type inEdge struct {
	st   *State
	cond Term // full condition under which this edge is taken (includes st.pc)
}

// merge joins states arriving over several edges; the result has a fresh path
// condition constant defined as the disjunction of the edge conditions.
func (vc *VC) merge(ins []inEdge, label string) *State {
	var conds []Term
	for _, in := range ins {
		conds = append(conds, in.cond)
	}
	pc := vc.freshConst("pc."+label, SBool)
	vc.assume(Eq(pc, Or(conds...)))
	if len(ins) == 1 {
		st := ins[0].st.clone()
		st.pc = pc
		return st
	}
	out := &State{pc: pc, locals: map[cellKey]Term{}, heaps: map[string]Term{}}
	// generation
	sameGen := true
	for _, in := range ins[1:] {
		if in.st.gen != ins[0].st.gen {
			sameGen = false
		}
	}
	if sameGen {
		out.gen = ins[0].st.gen
	} else {
		vc.env.fresh++
		out.gen = vc.env.fresh
	}
	// top
	out.top = vc.mergeTerm(ins, func(s *State) (Term, bool) { return s.top, true }, "top", SInt)
	// heaps: union of names
	names := map[string]Sort{}
	for _, in := range ins {
		for n, t := range in.st.heaps {
			names[n] = t.Sort
		}
	}
	for _, n := range sortedKeys(names) {
		s := names[n]
		out.heaps[n] = vc.mergeTerm(ins, func(st *State) (Term, bool) { return st.Heap(vc, n, s), true }, n, s)
	}
	// locals: union of keys; a cell missing in some predecessor is dead there
	keys := map[cellKey]Sort{}
	for _, in := range ins {
		for k, t := range in.st.locals {
			keys[k] = t.Sort
		}
	}
	var ks []cellKey
	for k := range keys {
		ks = append(ks, k)
	}
	sort.Slice(ks, func(i, j int) bool {
		if ks[i].f.id != ks[j].f.id {
			return ks[i].f.id < ks[j].f.id
		}
		return ks[i].a.Pos() < ks[j].a.Pos() || (ks[i].a.Pos() == ks[j].a.Pos() && ks[i].a.Name() < ks[j].a.Name())
	})
	for _, k := range ks {
		k := k
		out.locals[k] = vc.mergeTerm(ins, func(st *State) (Term, bool) { t, ok := st.locals[k]; return t, ok }, "m."+k.a.Comment, keys[k])
	}
	return out
}

func (vc *VC) mergeTerm(ins []inEdge, get func(*State) (Term, bool), label string, s Sort) Term {
	var vals []Term
	var conds []Term
	same := true
	for _, in := range ins {
		t, ok := get(in.st)
		if !ok {
			continue
		}
		if len(vals) > 0 && vals[0].S != t.S {
			same = false
		}
		vals = append(vals, t)
		conds = append(conds, in.cond)
	}
	if len(vals) == 0 {
		return vc.freshConst(label, s)
	}
	if same {
		return vals[0]
	}
	c := vc.freshConst(label, s)
	for i := range vals {
		vc.assume(Implies(conds[i], Eq(c, vals[i])))
	}
	return c
}

// keepPrivate: a havoc of "everything" (unknown callee, modifies *) leaves private ghost fields alone: they are
// specification-only bookkeeping that no code can reach.
func (vc *VC) keepPrivate(heaps map[string]Term) map[string]Term {
	out := map[string]Term{}
	for _, g := range vc.p.ghosts {
		if g.g.Private {
			if t, ok := heaps[g.heap]; ok {
				out[g.heap] = t
			}
		}
	}
	return out
}
