package main

// Contract files: structured `//@` comments. See DESIGN.md §2.2.

import (
	"fmt"
	"os"
	"path/filepath"
	"regexp"
	"strconv"
	"strings"
)

type Clause struct {
	Kind  string   // requires, ensures, invariant, decreases, assert, panics, ...
	Props []string // property tags; empty = all props of the contract
	Src   string
	E     Expr
	File  string
	Line  int
	Name  string // stable clause name: e.g. ensures:2
}

type LoopSpec struct {
	Invariants []*Clause
	Decreases  *Clause
}

type Anchor struct {
	Callee  string // callee short name
	Ordinal int
}

type GhostStmt struct {
	Anchor Anchor
	After  bool
	LHS    Expr // ghost field designator
	RHS    Expr
	Src    string
}

type AnchorAssert struct {
	Anchor Anchor
	After  bool
	C      *Clause
}

type Contract struct {
	Kind           string   // func, iface, functype, trusted
	Target         string   // function key
	PkgPath        string   // package the contract file belongs to ("" for trusted specs)
	ParamNames     []string // for iface/functype/trusted: names given in header (receiver first)
	ResNames       []string
	Props          []string
	Safety         []string // props owning the automatically generated safety obligations
	SafetySet      bool
	Requires       []*Clause
	Ensures        []*Clause
	Modifies       []Expr
	ModSrc         []string
	ModAll         bool // modifies *
	HasMod         bool
	Panics         []*Clause // may panic only if one of these holds
	PanicsIff      bool
	NoPanic        bool
	Loops          map[int]*LoopSpec
	Ghosts         []*GhostStmt
	Asserts        []*AnchorAssert
	Decreases      *Clause
	Pure           bool // trusted: no heap effects, result is function of args (uninterpreted)
	Inline         bool
	NoOvf          bool
	Skip           []string // safety classes not claimed for this function
	CallAs         []*CallAs
	PartialAnchors bool            // `partial-anchors`: calls of an instrumented callee may remain without ghost update / assertion
	NoShared       bool            // `nosharedwrites`: with `modifies *` (effects of callees are unconstrained) the function's own stores, map updates, appends and Once.Do calls must still hit memory allocated during the call
	RecvAlias      string          // contracts instantiated from a `methods` default: the name the clauses use for the receiver
	FromDefault    string          // key of the `methods` default this contract was instantiated from
	Dispatch       []*DispatchSpec // call sites of a function value dispatched over named methods (bound method values)
	Also           []string        // functype contracts this function must also satisfy
	CapReq         []*Clause       // preconditions on captured variables, asserted where the closure is created
	Assumes        []*Clause       // assumed in the function's own proof, not checked at call sites (listed as assumptions)
	ModelParams    []QVar          // kind "model": typed parameters
	ModelRes       []QVar
	Ovf            bool
	Allocates      bool // trusted: may allocate
	File           string
	Line           int
	Trusted        bool // from /verif/trusted (assumed)
	Uses           []string
}

// DispatchSpec: `dispatch fn#k: (*T).M1, (*T).M2` - at the k-th call of the function value fn the verifier splits
// on the identity of the value: for a bound method value of one of the listed methods the method's own contract is
// used with the bound receiver; otherwise the functype contract (or havoc).
type DispatchSpec struct {
	Anchor  Anchor
	Targets []string
	Src     string
}

// CallAs replaces the callee of a call site by a named model contract whose
// arguments are contract expressions evaluated at the call.
type CallAs struct {
	Anchor Anchor
	Model  string
	Args   []Expr
	Src    string
}

type GhostField struct {
	Private bool   // not affected by `modifies *` / unknown calls
	Owner   string // type expression text
	OwnerT  *TypeExpr
	Name    string
	T       *TypeExpr
	Pkg     string
}

type Define struct {
	Name    string
	Params  []QVar
	Ret     *TypeExpr
	Body    Expr // nil for uninterpreted
	Src     string
	PkgPath string
	File    string
	Line    int
	Trusted bool
	Opaque  bool
}

type AxiomDecl struct {
	Name    string
	E       Expr
	Src     string
	PkgPath string
	File    string
	Line    int
	Lemma   bool // to be proved rather than assumed
	Props   []string
}

type GlobalInv struct {
	Src     string
	E       Expr
	PkgPath string
}

type ContractSet struct {
	Funcs   map[string]*Contract // key: pkgpath + "::" + target for func; target for trusted/iface
	Ghosts  []*GhostField
	Defines map[string]*Define
	Axioms  []*AxiomDecl
	Globals []*GlobalInv
	Files   []string
	Order   []string
}

func NewContractSet() *ContractSet {
	return &ContractSet{Funcs: map[string]*Contract{}, Defines: map[string]*Define{}}
}

var clauseKeywords = map[string]bool{
	"func": true, "methods": true, "iface": true, "functype": true, "trusted": true, "ghost": true, "define": true,
	"axiom": true, "lemma": true, "props": true, "safety": true, "requires": true, "ensures": true,
	"modifies": true, "panics": true, "panics-iff": true, "nopanic": true, "loop": true, "decreases": true,
	"assert": true, "inline": true, "nosharedwrites": true, "partial-anchors": true, "pure": true, "allocates": true, "global": true, "ovf": true, "noovf": true,
	"uninterpreted": true, "opaque": true, "use": true, "skip": true, "model": true, "call": true, "dispatch": true, "also": true, "requires-captured": true, "assumes": true,
}

var tagRe = regexp.MustCompile(`^([a-z\-]+)\[([A-Z0-9, ]+)\]$`)

// LoadContractFile parses one file. pkgPath is the Go package the file belongs
// to ("" for trusted spec files); trusted marks all contracts as assumptions.
func (cs *ContractSet) LoadContractFile(path, pkgPath string, trusted bool) error {
	data, err := os.ReadFile(path)
	if err != nil {
		return err
	}
	cs.Files = append(cs.Files, path)
	type rawClause struct {
		kw   string
		tags []string
		text string
		line int
	}
	var raws []rawClause
	for i, line := range strings.Split(string(data), "\n") {
		trim := strings.TrimSpace(line)
		if !strings.HasPrefix(trim, "//@") {
			continue
		}
		body := strings.TrimSpace(trim[3:])
		if body == "" {
			continue
		}
		// strip trailing comment  " // ..."
		if j := strings.Index(body, " // "); j >= 0 && !strings.Contains(body[:j], "\"") {
			body = strings.TrimSpace(body[:j])
		}
		first := body
		rest := ""
		if j := strings.IndexAny(body, " \t"); j >= 0 {
			first, rest = body[:j], strings.TrimSpace(body[j+1:])
		}
		kw := first
		var tags []string
		if m := tagRe.FindStringSubmatch(first); m != nil {
			kw = m[1]
			for _, t := range strings.Split(m[2], ",") {
				tags = append(tags, strings.TrimSpace(t))
			}
		}
		if clauseKeywords[kw] {
			raws = append(raws, rawClause{kw, tags, rest, i + 1})
		} else {
			if len(raws) == 0 {
				return fmt.Errorf("%s:%d: continuation without clause", path, i+1)
			}
			raws[len(raws)-1].text += " " + body
		}
	}

	var cur *Contract
	fail := func(line int, f string, a ...interface{}) error {
		return fmt.Errorf("%s:%d: %s", path, line, fmt.Sprintf(f, a...))
	}
	mkClause := func(kind string, rc rawClause, idx int) (*Clause, error) {
		e, err := ParseExpr(rc.text)
		if err != nil {
			return nil, fail(rc.line, "%v", err)
		}
		return &Clause{Kind: kind, Props: rc.tags, Src: rc.text, E: e, File: path, Line: rc.line, Name: fmt.Sprintf("%s:%d", kind, idx)}, nil
	}
	for _, rc := range raws {
		switch rc.kw {
		case "func", "iface", "functype", "trusted", "methods":
			cur = &Contract{Kind: rc.kw, PkgPath: pkgPath, Loops: map[int]*LoopSpec{}, File: path, Line: rc.line, Trusted: trusted || rc.kw == "trusted"}
			target := rc.text
			quoted := false
			if rc.kw != "func" && strings.HasPrefix(target, "\"") {
				// functype "func() string" (p1, p2) r1
				if j := strings.Index(target[1:], "\""); j >= 0 {
					rest := strings.TrimSpace(target[j+2:])
					target = target[1 : j+1]
					quoted = true
					if strings.HasPrefix(rest, "(") {
						if k := strings.Index(rest, ")"); k >= 0 {
							for _, n := range strings.Split(rest[1:k], ",") {
								if n = strings.TrimSpace(n); n != "" {
									cur.ParamNames = append(cur.ParamNames, n)
								}
							}
							rest = rest[k+1:]
						}
					}
					for _, n := range strings.Split(rest, ",") {
						if n = strings.TrimSpace(n); n != "" {
							cur.ResNames = append(cur.ResNames, n)
						}
					}
				}
			}
			if rc.kw != "func" && !quoted {
				// header: name(p1, p2) r1, r2   (the name may itself start with "(*T)")
				if j := strings.LastIndex(target, "("); j > 0 {
					k := strings.Index(target[j:], ")")
					if k < 0 {
						return fail(rc.line, "bad header %q", target)
					}
					k += j
					for _, n := range strings.Split(target[j+1:k], ",") {
						if n = strings.TrimSpace(n); n != "" {
							cur.ParamNames = append(cur.ParamNames, n)
						}
					}
					for _, n := range strings.Split(target[k+1:], ",") {
						if n = strings.TrimSpace(n); n != "" {
							cur.ResNames = append(cur.ResNames, n)
						}
					}
					target = strings.TrimSpace(target[:j])
				}
			}
			cur.Target = target
			key := target
			if rc.kw == "func" {
				key = pkgPath + "::" + target
			}
			if rc.kw == "functype" {
				if !strings.Contains(target, ".") && pkgPath != "" && !quoted {
					target = pkgPath[strings.LastIndex(pkgPath, "/")+1:] + "." + target
					cur.Target = target
				}
				key = "functype::" + target
			}
			if rc.kw == "methods" {
				// methods (*T) (recv): default contract of every exported method of T that has no contract of its own
				key = "methods::" + pkgPath + "::" + target
				if len(cur.ParamNames) != 1 {
					return fail(rc.line, "expected: methods (*T) (receiverName)")
				}
			}
			if rc.kw == "iface" {
				if j := strings.LastIndex(target, "."); j >= 0 && !strings.Contains(target[:j], ".") && pkgPath != "" {
					target = pkgPath[strings.LastIndex(pkgPath, "/")+1:] + "." + target
					cur.Target = target
				}
				key = "iface::" + target
			}
			if _, dup := cs.Funcs[key]; dup {
				return fail(rc.line, "duplicate contract for %s", key)
			}
			cs.Funcs[key] = cur
			cs.Order = append(cs.Order, key)
		case "model":
			// model name(p T, ...) (r T, ...)
			cur = &Contract{Kind: "model", PkgPath: pkgPath, Loops: map[int]*LoopSpec{}, File: path, Line: rc.line, Trusted: true}
			lp := strings.Index(rc.text, "(")
			if lp < 0 {
				return fail(rc.line, "bad model header")
			}
			name := strings.TrimSpace(rc.text[:lp])
			rest := rc.text[lp:]
			rp := strings.Index(rest, ")")
			parseVars := func(s string) ([]QVar, error) {
				var out []QVar
				for _, p := range strings.Split(s, ",") {
					p = strings.TrimSpace(p)
					if p == "" {
						continue
					}
					f := strings.Fields(p)
					if len(f) < 2 {
						return nil, fmt.Errorf("bad parameter %q", p)
					}
					ty, err := ParseType(strings.Join(f[1:], " "))
					if err != nil {
						return nil, err
					}
					out = append(out, QVar{f[0], ty})
				}
				return out, nil
			}
			ps, err := parseVars(rest[1:rp])
			if err != nil {
				return fail(rc.line, "%v", err)
			}
			cur.ModelParams = ps
			rs := strings.TrimSpace(rest[rp+1:])
			rs = strings.TrimSuffix(strings.TrimPrefix(rs, "("), ")")
			rv, err := parseVars(rs)
			if err != nil {
				return fail(rc.line, "%v", err)
			}
			cur.ModelRes = rv
			cur.Target = name
			cs.Funcs["model::"+name] = cur
			cs.Order = append(cs.Order, "model::"+name)
		case "ghost":
			if strings.HasPrefix(rc.text, "before ") || strings.HasPrefix(rc.text, "after ") {
				if cur == nil {
					return fail(rc.line, "ghost statement outside a contract")
				}
				a, after, rest, err := parseAnchor(rc.text)
				if err != nil {
					return fail(rc.line, "%v", err)
				}
				j := strings.Index(rest, " = ")
				if j < 0 {
					return fail(rc.line, "ghost statement needs `lhs = rhs`")
				}
				lhs, err := ParseExpr(rest[:j])
				if err != nil {
					return fail(rc.line, "%v", err)
				}
				rhs, err := ParseExpr(rest[j+3:])
				if err != nil {
					return fail(rc.line, "%v", err)
				}
				cur.Ghosts = append(cur.Ghosts, &GhostStmt{Anchor: a, After: after, LHS: lhs, RHS: rhs, Src: rest})
				break
			}
			// ghost field Owner.name Type
			parts := strings.Fields(rc.text)
			private := false
			if len(parts) > 0 && parts[0] == "private" {
				private = true
				parts = parts[1:]
			}
			if len(parts) < 3 || parts[0] != "field" {
				return fail(rc.line, "expected: ghost field Owner.name Type")
			}
			j := strings.LastIndex(parts[1], ".")
			if j < 0 {
				return fail(rc.line, "bad ghost field %q", parts[1])
			}
			ot, err := ParseType(parts[1][:j])
			if err != nil {
				return fail(rc.line, "%v", err)
			}
			ft, err := ParseType(strings.Join(parts[2:], " "))
			if err != nil {
				return fail(rc.line, "%v", err)
			}
			cs.Ghosts = append(cs.Ghosts, &GhostField{Private: private, Owner: parts[1][:j], OwnerT: ot, Name: parts[1][j+1:], T: ft, Pkg: pkgPath})
		case "define", "uninterpreted":
			d, err := parseDefine(rc.text, rc.kw == "uninterpreted")
			if err != nil {
				return fail(rc.line, "%v", err)
			}
			d.PkgPath, d.File, d.Line, d.Trusted = pkgPath, path, rc.line, trusted
			if _, dup := cs.Defines[d.Name]; dup {
				return fail(rc.line, "duplicate define %s", d.Name)
			}
			cs.Defines[d.Name] = d
		case "axiom", "lemma":
			j := strings.Index(rc.text, ":")
			if j < 0 {
				return fail(rc.line, "expected `axiom name: expr`")
			}
			e, err := ParseExpr(rc.text[j+1:])
			if err != nil {
				return fail(rc.line, "%v", err)
			}
			cs.Axioms = append(cs.Axioms, &AxiomDecl{Props: rc.tags, Name: strings.TrimSpace(rc.text[:j]), E: e, Src: strings.TrimSpace(rc.text[j+1:]), PkgPath: pkgPath, File: path, Line: rc.line, Lemma: rc.kw == "lemma"})
		case "global":
			e, err := ParseExpr(rc.text)
			if err != nil {
				return fail(rc.line, "%v", err)
			}
			cs.Globals = append(cs.Globals, &GlobalInv{Src: rc.text, E: e, PkgPath: pkgPath})
		default:
			if cur == nil {
				return fail(rc.line, "clause %q outside a contract", rc.kw)
			}
			switch rc.kw {
			case "props":
				cur.Props = strings.Fields(rc.text)
			case "safety":
				cur.Safety = strings.Fields(rc.text)
				cur.SafetySet = true
			case "requires":
				c, err := mkClause("requires", rc, len(cur.Requires))
				if err != nil {
					return err
				}
				cur.Requires = append(cur.Requires, c)
			case "ensures":
				c, err := mkClause("ensures", rc, len(cur.Ensures))
				if err != nil {
					return err
				}
				cur.Ensures = append(cur.Ensures, c)
			case "modifies":
				cur.HasMod = true
				if strings.TrimSpace(rc.text) == "*" {
					cur.ModAll = true
					break
				}
				if strings.TrimSpace(rc.text) == "nothing" {
					break
				}
				es, err := ParseExprList(rc.text)
				if err != nil {
					return fail(rc.line, "%v", err)
				}
				cur.Modifies = append(cur.Modifies, es...)
				for _, e := range es {
					cur.ModSrc = append(cur.ModSrc, exprString(e))
				}
			case "panics", "panics-iff":
				c, err := mkClause("panics", rc, len(cur.Panics))
				if err != nil {
					return err
				}
				cur.Panics = append(cur.Panics, c)
				if rc.kw == "panics-iff" {
					cur.PanicsIff = true
				}
			case "nopanic":
				cur.NoPanic = true
			case "pure":
				cur.Pure = true
			case "partial-anchors":
				cur.PartialAnchors = true
			case "nosharedwrites":
				cur.NoShared = true
			case "inline":
				cur.Inline = true
			case "allocates":
				cur.Allocates = true
			case "ovf":
				cur.Ovf = true
			case "noovf":
				cur.NoOvf = true
			case "dispatch":
				a, _, rest, err := parseAnchor("before " + rc.text)
				if err != nil {
					return fail(rc.line, "expected: dispatch callee#k: (*T).M, ...")
				}
				ds := &DispatchSpec{Anchor: a, Src: rc.text}
				for _, t := range strings.Split(rest, ",") {
					if t = strings.TrimSpace(t); t != "" {
						ds.Targets = append(ds.Targets, t)
					}
				}
				cur.Dispatch = append(cur.Dispatch, ds)
			case "call":
				// call callee#k as model(args)
				parts := strings.SplitN(rc.text, " as ", 2)
				if len(parts) != 2 {
					return fail(rc.line, "expected: call callee#k as model(args)")
				}
				a, _, _, err := parseAnchor("before " + strings.TrimSpace(parts[0]) + ": x")
				if err != nil {
					return fail(rc.line, "%v", err)
				}
				e, err := ParseExpr(parts[1])
				if err != nil {
					return fail(rc.line, "%v", err)
				}
				ce, ok := e.(ECall)
				if !ok {
					return fail(rc.line, "expected model(args)")
				}
				id, ok := ce.Fun.(EIdent)
				if !ok {
					return fail(rc.line, "expected model name")
				}
				cur.CallAs = append(cur.CallAs, &CallAs{Anchor: a, Model: id.Name, Args: ce.Args, Src: rc.text})
			case "also":
				f := strings.Fields(rc.text)
				if len(f) != 2 || f[0] != "functype" {
					return fail(rc.line, "expected: also functype T")
				}
				cur.Also = append(cur.Also, f[1])
			case "assumes":
				c, err := mkClause("assumes", rc, len(cur.Assumes))
				if err != nil {
					return err
				}
				cur.Assumes = append(cur.Assumes, c)
			case "requires-captured":
				c, err := mkClause("requires-captured", rc, len(cur.CapReq))
				if err != nil {
					return err
				}
				cur.CapReq = append(cur.CapReq, c)
			case "skip":
				cur.Skip = append(cur.Skip, strings.Fields(rc.text)...)
			case "use":
				cur.Uses = append(cur.Uses, strings.Fields(rc.text)...)
			case "decreases":
				c, err := mkClause("decreases", rc, 0)
				if err != nil {
					return err
				}
				cur.Decreases = c
			case "loop":
				// loop N invariant expr | loop N decreases expr
				parts := strings.SplitN(rc.text, " ", 3)
				if len(parts) < 3 {
					return fail(rc.line, "expected: loop N invariant|decreases expr")
				}
				n, err := strconv.Atoi(parts[0])
				if err != nil {
					return fail(rc.line, "bad loop ordinal %q", parts[0])
				}
				ls := cur.Loops[n]
				if ls == nil {
					ls = &LoopSpec{}
					cur.Loops[n] = ls
				}
				kw := parts[1]
				var tags []string
				if m := tagRe.FindStringSubmatch(kw); m != nil {
					kw = m[1]
					for _, t := range strings.Split(m[2], ",") {
						tags = append(tags, strings.TrimSpace(t))
					}
				}
				rc2 := rc
				rc2.text = parts[2]
				rc2.tags = tags
				switch kw {
				case "invariant":
					c, err := mkClause("invariant", rc2, len(ls.Invariants))
					if err != nil {
						return err
					}
					c.Name = fmt.Sprintf("loop%d.invariant:%d", n, len(ls.Invariants))
					ls.Invariants = append(ls.Invariants, c)
				case "decreases":
					c, err := mkClause("decreases", rc2, 0)
					if err != nil {
						return err
					}
					c.Name = fmt.Sprintf("loop%d.decreases", n)
					ls.Decreases = c
				default:
					return fail(rc.line, "bad loop clause %q", kw)
				}
			case "assert":
				// assert before|after callee#k: expr      or  ghost handled below
				a, after, rest, err := parseAnchor(rc.text)
				if err != nil {
					return fail(rc.line, "%v", err)
				}
				rc2 := rc
				rc2.text = rest
				c, err := mkClause("assert", rc2, len(cur.Asserts))
				if err != nil {
					return err
				}
				c.Name = fmt.Sprintf("assert@%s#%d", a.Callee, a.Ordinal)
				cur.Asserts = append(cur.Asserts, &AnchorAssert{Anchor: a, After: after, C: c})
			}
		}
	}
	return nil
}

// parseAnchor parses "before callee#k: rest".
func parseAnchor(s string) (Anchor, bool, string, error) {
	j := strings.Index(s, ":")
	if j < 0 {
		return Anchor{}, false, "", fmt.Errorf("expected `before|after callee#k: ...`")
	}
	head := strings.Fields(s[:j])
	if len(head) != 2 || (head[0] != "before" && head[0] != "after") {
		return Anchor{}, false, "", fmt.Errorf("expected `before|after callee#k: ...`")
	}
	name, ord := head[1], 0
	if k := strings.Index(name, "#"); k >= 0 {
		n, err := strconv.Atoi(name[k+1:])
		if err != nil {
			return Anchor{}, false, "", err
		}
		name, ord = name[:k], n
	}
	return Anchor{name, ord}, head[0] == "after", strings.TrimSpace(s[j+1:]), nil
}

// parseDefine parses "name(x T, y U) R = expr" (or without "= expr").
func parseDefine(s string, unint bool) (*Define, error) {
	body := ""
	head := s
	if !unint {
		j := strings.Index(s, " = ")
		if j < 0 {
			return nil, fmt.Errorf("define needs ` = body`")
		}
		head, body = s[:j], s[j+3:]
	}
	lp := strings.Index(head, "(")
	rp := strings.LastIndex(head, ")")
	if lp < 0 || rp < lp {
		return nil, fmt.Errorf("bad define header %q", head)
	}
	d := &Define{Name: strings.TrimSpace(head[:lp]), Src: s}
	if ps := strings.TrimSpace(head[lp+1 : rp]); ps != "" {
		for _, p := range strings.Split(ps, ",") {
			f := strings.Fields(strings.TrimSpace(p))
			if len(f) < 2 {
				return nil, fmt.Errorf("bad parameter %q", p)
			}
			ty, err := ParseType(strings.Join(f[1:], " "))
			if err != nil {
				return nil, err
			}
			d.Params = append(d.Params, QVar{f[0], ty})
		}
	}
	rt, err := ParseType(strings.TrimSpace(head[rp+1:]))
	if err != nil {
		return nil, fmt.Errorf("bad result type in %q: %v", head, err)
	}
	d.Ret = rt
	if !unint {
		e, err := ParseExpr(body)
		if err != nil {
			return nil, err
		}
		d.Body = e
	}
	return d, nil
}

// LoadAll loads contract files from the repo (tagged files) and trusted specs.
func LoadContracts(repo string, trustedDir string, pkgOfDir func(dir string) string) (*ContractSet, error) {
	cs := NewContractSet()
	var files []string
	filepath.Walk(repo, func(p string, info os.FileInfo, err error) error {
		if err != nil {
			return nil
		}
		if info.IsDir() && (info.Name() == ".git" || info.Name() == "vendor") {
			return filepath.SkipDir
		}
		if !info.IsDir() && strings.HasPrefix(info.Name(), "zz_verif_") && strings.HasSuffix(info.Name(), ".go") {
			files = append(files, p)
		}
		return nil
	})
	for _, f := range files {
		if err := cs.LoadContractFile(f, pkgOfDir(filepath.Dir(f)), false); err != nil {
			return nil, err
		}
	}
	specs, _ := filepath.Glob(filepath.Join(trustedDir, "*.spec"))
	for _, f := range specs {
		if err := cs.LoadContractFile(f, "", true); err != nil {
			return nil, err
		}
	}
	return cs, nil
}
