package main

// SMT term layer: terms are S-expression strings tagged with a sort. The global
// Env records sort/function declarations and background axioms in registration
// order so that every query gets a self-contained prelude.

import (
	"fmt"
	"sort"
	"strconv"
	"strings"
)

type Sort string

const (
	SInt   Sort = "Int"
	SBool  Sort = "Bool"
	SStr   Sort = "Str"
	SSlice Sort = "Slice"
	SIface Sort = "Iface"
	SFloat Sort = "Float"
)

func ArraySort(k, v Sort) Sort { return Sort("(Array " + string(k) + " " + string(v) + ")") }

type Term struct {
	S    string
	Sort Sort
}

func (t Term) String() string { return t.S }

func T(sort Sort, format string, args ...interface{}) Term {
	return Term{S: fmt.Sprintf(format, args...), Sort: sort}
}

var (
	True  = Term{"true", SBool}
	False = Term{"false", SBool}
)

func IntLit(n int64) Term {
	if n < 0 {
		return Term{"(- " + strconv.FormatInt(-n, 10) + ")", SInt}
	}
	return Term{strconv.FormatInt(n, 10), SInt}
}

func BigLit(s string) Term {
	if strings.HasPrefix(s, "-") {
		return Term{"(- " + s[1:] + ")", SInt}
	}
	return Term{s, SInt}
}

func Not(a Term) Term {
	switch a.S {
	case "true":
		return False
	case "false":
		return True
	}
	if strings.HasPrefix(a.S, "(not ") {
		return Term{a.S[5 : len(a.S)-1], SBool}
	}
	return Term{"(not " + a.S + ")", SBool}
}

func And(ts ...Term) Term {
	var parts []string
	for _, t := range ts {
		if t.S == "true" {
			continue
		}
		if t.S == "false" {
			return False
		}
		parts = append(parts, t.S)
	}
	switch len(parts) {
	case 0:
		return True
	case 1:
		return Term{parts[0], SBool}
	}
	return Term{"(and " + strings.Join(parts, " ") + ")", SBool}
}

func Or(ts ...Term) Term {
	var parts []string
	for _, t := range ts {
		if t.S == "false" {
			continue
		}
		if t.S == "true" {
			return True
		}
		parts = append(parts, t.S)
	}
	switch len(parts) {
	case 0:
		return False
	case 1:
		return Term{parts[0], SBool}
	}
	return Term{"(or " + strings.Join(parts, " ") + ")", SBool}
}

func Implies(a, b Term) Term {
	if a.S == "true" {
		return b
	}
	if a.S == "false" || b.S == "true" {
		return True
	}
	return Term{"(=> " + a.S + " " + b.S + ")", SBool}
}

func Eq(a, b Term) Term {
	if a.S == b.S {
		return True
	}
	return Term{"(= " + a.S + " " + b.S + ")", SBool}
}

func Ite(c, a, b Term) Term {
	if c.S == "true" {
		return a
	}
	if c.S == "false" {
		return b
	}
	if a.S == b.S {
		return a
	}
	return Term{"(ite " + c.S + " " + a.S + " " + b.S + ")", a.Sort}
}

func App(sort Sort, f string, args ...Term) Term {
	if len(args) == 0 {
		return Term{f, sort}
	}
	var sb strings.Builder
	sb.WriteString("(")
	sb.WriteString(f)
	for _, a := range args {
		sb.WriteString(" ")
		sb.WriteString(a.S)
	}
	sb.WriteString(")")
	return Term{sb.String(), sort}
}

func Select(arr, idx Term) Term {
	// (Array K V)
	return Term{"(select " + arr.S + " " + idx.S + ")", arrayValSort(arr.Sort)}
}

func Store(arr, idx, v Term) Term {
	return Term{"(store " + arr.S + " " + idx.S + " " + v.S + ")", arr.Sort}
}

// arrayValSort parses "(Array K V)" and returns V.
func arrayValSort(s Sort) Sort {
	_, v := splitArraySort(s)
	return v
}

func arrayKeySort(s Sort) Sort {
	k, _ := splitArraySort(s)
	return k
}

func splitArraySort(s Sort) (Sort, Sort) {
	str := string(s)
	if !strings.HasPrefix(str, "(Array ") {
		panic("not an array sort: " + str)
	}
	body := str[len("(Array ") : len(str)-1]
	// split at top-level space
	depth := 0
	for i, c := range body {
		switch c {
		case '(':
			depth++
		case ')':
			depth--
		case ' ':
			if depth == 0 {
				return Sort(body[:i]), Sort(body[i+1:])
			}
		}
	}
	panic("bad array sort: " + str)
}

// ---------------------------------------------------------------------------

// Env is the global registry of SMT declarations shared by all queries.
type Env struct {
	order     []string          // declaration text in order
	declared  map[string]bool   // names already declared
	axioms    []string          // background axioms (asserted in every query)
	axiomSet  map[string]bool   //
	litIdx    map[string]string // string literal -> const name
	litVal    map[string]string // const name -> string literal
	catParts  map[string][]Term // canonical concatenations: term -> its flattened parts
	tagIdx    map[string]int    // type string -> tag
	tagNames  []string
	fresh     int
	trusted   map[string]bool // names of axioms that are assumptions
	mapInfo   map[string]mapInfo
	heapTypes map[string]heapType
}

func NewEnv() *Env {
	e := &Env{declared: map[string]bool{}, axiomSet: map[string]bool{}, litIdx: map[string]string{}, tagIdx: map[string]int{}, trusted: map[string]bool{}}
	e.tagNames = []string{"<nil>"}
	e.base()
	return e
}

func (e *Env) Decl(name, text string) {
	if e.declared[name] {
		return
	}
	e.declared[name] = true
	e.order = append(e.order, text)
}

func (e *Env) DeclFun(name string, args []Sort, ret Sort) {
	if e.declared[name] {
		return
	}
	as := make([]string, len(args))
	for i, a := range args {
		as[i] = string(a)
	}
	e.Decl(name, fmt.Sprintf("(declare-fun %s (%s) %s)", name, strings.Join(as, " "), ret))
}

func (e *Env) Axiom(text string) {
	if e.axiomSet[text] {
		return
	}
	e.axiomSet[text] = true
	e.order = append(e.order, "(assert "+text+")")
}

func (e *Env) Fresh(prefix string) string {
	e.fresh++
	return fmt.Sprintf("%s!%d", sanitize(prefix), e.fresh)
}

func sanitize(s string) string {
	var sb strings.Builder
	for _, c := range s {
		switch {
		case c >= 'a' && c <= 'z', c >= 'A' && c <= 'Z', c >= '0' && c <= '9', c == '_', c == '.', c == '!', c == '$':
			sb.WriteRune(c)
		case c == '*':
			sb.WriteString("P")
		case c == '[' || c == ']':
			sb.WriteString("_")
		case c == '/':
			sb.WriteString(".")
		default:
			sb.WriteString("_")
		}
	}
	return sb.String()
}

// Tag returns the integer type tag of a Go type (by canonical string).
func (e *Env) Tag(typ string) int {
	if t, ok := e.tagIdx[typ]; ok {
		return t
	}
	t := len(e.tagNames)
	e.tagIdx[typ] = t
	e.tagNames = append(e.tagNames, typ)
	return t
}

func (e *Env) base() {
	e.Decl("Str", "(declare-sort Str 0)")
	e.Decl("Float", "(declare-sort Float 0)")
	e.Decl("Slice", "(declare-datatypes ((Slice 0)) (((mk-slice (sl-arr Int) (sl-off Int) (sl-len Int) (sl-cap Int)))))")
	e.Decl("Iface", "(declare-datatypes ((Iface 0)) (((mk-iface (if-tag Int) (if-val Int)))))")
	e.DeclFun("base", []Sort{SInt}, SInt)
	e.DeclFun("rtype", []Sort{SInt}, SInt)
	e.DeclFun("refkind", []Sort{SInt}, SInt)
	e.DeclFun("elemref", []Sort{SInt, SInt}, SInt)
	e.DeclFun("elem_arr", []Sort{SInt}, SInt)
	e.DeclFun("elem_idx", []Sort{SInt}, SInt)
	e.Axiom("(forall ((a Int) (i Int)) (! (and (= (elem_arr (elemref a i)) a) (= (elem_idx (elemref a i)) i) (= (base (elemref a i)) (base a)) (= (refkind (elemref a i)) 1) (not (= (elemref a i) 0))) :pattern ((elemref a i))))")
	e.Axiom("(= (base 0) 0)")
	e.DeclFun("sidx", []Sort{SSlice, SInt}, SInt)
	e.Axiom("(forall ((s Slice) (k Int)) (! (= (sidx s k) (elemref (sl-arr s) (+ (sl-off s) k))) :pattern ((sidx s k))))")
	// strings
	e.DeclFun("slen", []Sort{SStr}, SInt)
	e.DeclFun("sat", []Sort{SStr, SInt}, SInt)
	e.DeclFun("ssub", []Sort{SStr, SInt, SInt}, SStr)
	e.DeclFun("scat", []Sort{SStr, SStr}, SStr)
	e.DeclFun("str_empty", nil, SStr)
	e.DeclFun("float_zero", nil, SFloat)
	e.Axiom("(forall ((s Str)) (! (>= (slen s) 0) :pattern ((slen s))))")
	e.Axiom("(= (slen str_empty) 0)")
	e.Axiom("(forall ((s Str)) (! (=> (= (slen s) 0) (= s str_empty)) :pattern ((slen s))))")
	e.Axiom("(forall ((s Str) (i Int)) (! (and (<= 0 (sat s i)) (<= (sat s i) 255)) :pattern ((sat s i))))")
	e.Axiom("(forall ((a Str) (b Str)) (! (= (slen (scat a b)) (+ (slen a) (slen b))) :pattern ((scat a b))))")
	e.Axiom("(forall ((a Str) (b Str) (i Int)) (! (= (sat (scat a b) i) (ite (< i (slen a)) (sat a i) (sat b (- i (slen a))))) :pattern ((sat (scat a b) i))))")
	e.Axiom("(forall ((s Str) (a Int) (b Int)) (! (=> (and (<= 0 a) (<= a b) (<= b (slen s))) (= (slen (ssub s a b)) (- b a))) :pattern ((ssub s a b))))")
	e.Axiom("(forall ((s Str) (a Int) (b Int) (i Int)) (! (=> (and (<= 0 a) (<= a b) (<= b (slen s)) (<= 0 i) (< i (- b a))) (= (sat (ssub s a b) i) (sat s (+ a i)))) :pattern ((sat (ssub s a b) i))))")
	e.Axiom("(forall ((s Str) (a Int) (b Int) (k Int)) (! (=> (and (<= 0 a) (<= a k) (< k b) (<= b (slen s))) (= (sat (ssub s a b) (- k a)) (sat s k))) :pattern ((ssub s a b) (sat s k))))")
	e.Axiom("(forall ((s Str)) (! (= (ssub s 0 (slen s)) s) :pattern ((slen s))))")
	e.Axiom("(forall ((s Str) (a Int)) (! (= (ssub s a a) str_empty) :pattern ((ssub s a a))))")
	e.Axiom("(forall ((s Str) (a Int) (b Int) (c Int) (d Int)) (! (=> (and (<= 0 a) (<= a b) (<= b (slen s)) (<= 0 c) (<= c d) (<= d (- b a))) (= (ssub (ssub s a b) c d) (ssub s (+ a c) (+ a d)))) :pattern ((ssub (ssub s a b) c d))))")
	e.Axiom("(forall ((s Str) (a Int) (b Int) (c Int)) (! (=> (and (<= 0 a) (<= a b) (<= b c) (<= c (slen s))) (= (scat (ssub s a b) (ssub s b c)) (ssub s a c))) :pattern ((scat (ssub s a b) (ssub s b c)))))")
	e.Axiom("(forall ((a Str) (b Str) (c Str)) (! (= (scat (scat a b) c) (scat a (scat b c))) :pattern ((scat (scat a b) c))))")
	e.Axiom("(forall ((a Str)) (! (and (= (scat a str_empty) a) (= (scat str_empty a) a)) :pattern ((scat a str_empty)) :pattern ((scat str_empty a))))")
	// boxing of non-pointer dynamic values into interface payloads
	e.DeclFun("box_Str", []Sort{SStr}, SInt)
	e.DeclFun("unbox_Str", []Sort{SInt}, SStr)
	e.Axiom("(forall ((s Str)) (! (and (= (unbox_Str (box_Str s)) s) (= (base (box_Str s)) 0)) :pattern ((box_Str s))))")
	e.DeclFun("maplen", []Sort{SInt}, SInt)
	e.Axiom("(forall ((m Int)) (! (>= (maplen m) 0) :pattern ((maplen m))))")
}

// StrLit returns the constant for a Go string literal, declaring its length and
// bytes on first use.
// Cat builds a concatenation in a canonical shape: flattened, right-nested, adjacent literals merged into one literal.
// ("a" + "b") + x, "a" + ("b" + x) and "ab" + x become the same term, so splitting or joining string constants in the
// code does not disturb the contracts.
func (e *Env) Cat(a, b Term) Term {
	if e.catParts == nil {
		e.catParts = map[string][]Term{}
	}
	if e.litVal == nil {
		e.litVal = map[string]string{}
	}
	parts := func(t Term) []Term {
		if p, ok := e.catParts[t.S]; ok {
			return p
		}
		return []Term{t}
	}
	all := append(append([]Term{}, parts(a)...), parts(b)...)
	var merged []Term
	for _, t := range all {
		if t.S == "str_empty" {
			continue
		}
		if v, isLit := e.litVal[t.S]; isLit && len(merged) > 0 {
			if pv, prevLit := e.litVal[merged[len(merged)-1].S]; prevLit {
				merged[len(merged)-1] = e.StrLit(pv + v)
				continue
			}
		}
		merged = append(merged, t)
	}
	if len(merged) == 0 {
		return Term{"str_empty", SStr}
	}
	res := merged[len(merged)-1]
	for i := len(merged) - 2; i >= 0; i-- {
		res = App(SStr, "scat", merged[i], res)
	}
	if len(merged) > 1 {
		e.catParts[res.S] = merged
	}
	return res
}

func (e *Env) StrLit(s string) Term {
	if s == "" {
		return Term{"str_empty", SStr}
	}
	if n, ok := e.litIdx[s]; ok {
		return Term{n, SStr}
	}
	name := fmt.Sprintf("lit!%d", len(e.litIdx))
	e.litIdx[s] = name
	if e.litVal == nil {
		e.litVal = map[string]string{}
	}
	e.litVal[name] = s
	e.Decl(name, fmt.Sprintf("(declare-fun %s () Str) ; %q", name, truncate(s, 60)))
	e.Axiom(fmt.Sprintf("(= (slen %s) %d)", name, len(s)))
	if len(s) <= 64 {
		for i := 0; i < len(s); i++ {
			e.Axiom(fmt.Sprintf("(= (sat %s %d) %d)", name, i, s[i]))
		}
	}
	// single-byte literals: characterised by their byte (extensionality for length 1)
	if len(s) == 1 {
		e.needCh()
		e.Axiom(fmt.Sprintf("(= %s (ch %d))", name, s[0]))
	}
	return Term{name, SStr}
}

func (e *Env) needCh() {
	if e.declared["ch"] {
		return
	}
	e.DeclFun("ch", []Sort{SInt}, SStr)
	e.Axiom("(forall ((c Int)) (! (=> (and (<= 0 c) (<= c 255)) (and (= (slen (ch c)) 1) (= (sat (ch c) 0) c))) :pattern ((ch c))))")
	e.Axiom("(forall ((s Str)) (! (=> (= (slen s) 1) (= s (ch (sat s 0)))) :pattern ((sat s 0))))")
	e.Axiom("(forall ((s Str) (a Int) (b Int)) (! (=> (and (= b (+ a 1)) (<= 0 a) (<= b (slen s))) (= (ssub s a b) (ch (sat s a)))) :pattern ((ssub s a b))))")
	// prepending the character in front of a substring extends the substring to the left
	e.Axiom("(forall ((s Str) (b Int) (d Int) (c Int)) (! (=> (and (<= 1 b) (<= b d) (<= d (slen s)) (= (sat s (- b 1)) c)) (= (scat (ch c) (ssub s b d)) (ssub s (- b 1) d))) :pattern ((scat (ch c) (ssub s b d)))))")
}

func truncate(s string, n int) string {
	if len(s) > n {
		return s[:n] + "..."
	}
	return s
}

// Prelude returns all declarations and axioms.
func (e *Env) Prelude() string {
	return strings.Join(e.order, "\n") + "\n"
}

func sortedKeys[V any](m map[string]V) []string {
	ks := make([]string, 0, len(m))
	for k := range m {
		ks = append(ks, k)
	}
	sort.Strings(ks)
	return ks
}
