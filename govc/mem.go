package main

// Frames, values, locations and memory operations of the symbolic executor.

import (
	"fmt"
	"go/types"
	"strings"

	"golang.org/x/tools/go/ssa"
)

type Value struct {
	T        Term
	Loc      *Loc
	Tuple    []Value
	Fn       *ssa.Function // statically known function (static callee or closure code)
	Bindings []Value       // closure bindings
}

const (
	locLocal = iota
	locHeap
)

type Loc struct {
	Kind  int
	Path  []int      // for local struct cells: field path into the value
	Root  types.Type // type of the whole cell (when Path is used)
	Cell  cellKey
	Heap  string
	HSort Sort
	Idx   Term
	Typ   types.Type // pointee type
	Field bool       // address of a scalar field (pointer value must not escape)
}

type Frame struct {
	vc              *VC
	fn              *ssa.Function
	id              int
	regs            map[ssa.Value]Value
	parent          *Frame
	depth           int
	params          []Value
	freeVars        []Value
	vars            map[string]scopeVar // parameter names -> entry values
	entry           *State
	top             bool // the function under verification
	adoptBase       int  // inlined helper with loops: ordinal of the loop contract its first loop adopts (-1: none)
	callOrd         map[string]int
	loops           map[*ssa.BasicBlock]*loopInfo
	pendingBindings []Value
}

type loopInfo struct {
	ordinal int
	pre     *State
	head    *State
	decAt   Term
	hasDec  bool
	body    map[*ssa.BasicBlock]bool
	auto    func(st *State) Term
	precise map[string][]Term // heaps written in the loop only at these known local objects
}

func (vc *VC) newFrame(fn *ssa.Function, parent *Frame) *Frame {
	vc.frameSeq++
	f := &Frame{adoptBase: -1, vc: vc, fn: fn, id: vc.frameSeq, regs: map[ssa.Value]Value{}, parent: parent, vars: map[string]scopeVar{}, callOrd: map[string]int{}, loops: map[*ssa.BasicBlock]*loopInfo{}}
	if parent != nil {
		f.depth = parent.depth + 1
	}
	return f
}

func (f *Frame) allAllocs() []*ssa.Alloc {
	var out []*ssa.Alloc
	for _, b := range f.fn.Blocks {
		for _, in := range b.Instrs {
			if a, ok := in.(*ssa.Alloc); ok {
				out = append(out, a)
			}
		}
	}
	return out
}

func (f *Frame) hasLocal(name string) bool {
	name = f.vc.p.curName(f.fn, name)
	for _, a := range f.allAllocs() {
		if a.Comment == name {
			return true
		}
	}
	return false
}

// localByName reads the current content of the source variable `name` (or
// name#k for the k-th variable of that name).
func (f *Frame) localByName(st *State, name string) (Term, types.Type, bool) {
	name = f.vc.p.curName(f.fn, name)
	want := 0
	base := name
	for i := 0; i < len(name); i++ {
		if name[i] == '#' {
			base = name[:i]
			fmt.Sscanf(name[i+1:], "%d", &want)
		}
	}
	k := 0
	for _, a := range f.allAllocs() {
		if a.Comment != base {
			continue
		}
		if k != want {
			k++
			continue
		}
		elem := a.Type().Underlying().(*types.Pointer).Elem()
		v, ok := f.regs[a]
		if !ok {
			// not yet allocated on this path: only parameters have values
			return Term{}, nil, false
		}
		return f.load(st, v, elem), elem, true
	}
	return Term{}, nil, false
}

// ---- locations ---------------------------------------------------------------

func (f *Frame) scalarLocal(a *ssa.Alloc) bool {
	if a.Heap {
		return false
	}
	elem := a.Type().Underlying().(*types.Pointer).Elem()
	return !isArray(elem)
}

// locOf returns the location designated by pointer value v with pointee type t
// (t must not be a struct or array type).
func (f *Frame) locOf(v Value, t types.Type) Loc {
	if v.Loc != nil {
		return *v.Loc
	}
	hn, hs := f.vc.env.cellHeap(t)
	return Loc{Kind: locHeap, Heap: hn, HSort: hs, Idx: v.T, Typ: t}
}

func (f *Frame) readLoc(st *State, l Loc) Term {
	if l.Kind == locLocal {
		root := l.Typ
		if l.Root != nil {
			root = l.Root
		}
		t, ok := st.locals[l.Cell]
		if !ok {
			t = f.vc.env.Zero(root)
		}
		cur := root
		for _, i := range l.Path {
			t = f.vc.env.structGet(cur, t, i)
			cur = cur.Underlying().(*types.Struct).Field(i).Type()
		}
		return t
	}
	return Select(st.Heap(f.vc, l.Heap, l.HSort), l.Idx)
}

func (f *Frame) writeLoc(st *State, l Loc, v Term, instr ssa.Instruction) {
	if l.Kind == locLocal {
		if len(l.Path) == 0 {
			st.locals[l.Cell] = v
			return
		}
		whole, ok := st.locals[l.Cell]
		if !ok {
			whole = f.vc.env.Zero(l.Root)
		}
		st.locals[l.Cell] = f.structUpdate(l.Root, whole, l.Path, v)
		return
	}
	f.vc.checkFrame(st, l.Heap, l.HSort, l.Idx, instr)
	st.SetHeap(l.Heap, Store(st.Heap(f.vc, l.Heap, l.HSort), l.Idx, v))
}

// structUpdate returns whole with the field at path replaced by v.
func (f *Frame) structUpdate(t types.Type, whole Term, path []int, v Term) Term {
	if len(path) == 0 {
		return v
	}
	env := f.vc.env
	st := t.Underlying().(*types.Struct)
	var fs []Term
	for i := 0; i < st.NumFields(); i++ {
		cur := env.structGet(t, whole, i)
		if i == path[0] {
			cur = f.structUpdate(st.Field(i).Type(), cur, path[1:], v)
		}
		fs = append(fs, cur)
	}
	return env.structMk(t, fs)
}

// load reads a value of type t through pointer v.
func (f *Frame) load(st *State, v Value, t types.Type) Term {
	env := f.vc.env
	if v.Loc != nil && v.Loc.Kind == locLocal {
		return f.readLoc(st, *v.Loc)
	}
	if s, ok := t.Underlying().(*types.Struct); ok {
		var fs []Term
		for i := 0; i < s.NumFields(); i++ {
			fs = append(fs, f.load(st, f.fieldAddr(v, t, i), s.Field(i).Type()))
		}
		return env.structMk(t, fs)
	}
	if isArray(t) {
		f.vc.unsupported("load of array value %s", typeKey(t))
		return f.vc.freshConst("arr", SInt)
	}
	return f.readLoc(st, f.locOf(v, t))
}

func (f *Frame) store(st *State, v Value, t types.Type, val Term, instr ssa.Instruction) {
	env := f.vc.env
	if v.Loc != nil && v.Loc.Kind == locLocal {
		f.writeLoc(st, *v.Loc, val, instr)
		return
	}
	if s, ok := t.Underlying().(*types.Struct); ok {
		for i := 0; i < s.NumFields(); i++ {
			f.store(st, f.fieldAddr(v, t, i), s.Field(i).Type(), env.structGet(t, val, i), instr)
		}
		return
	}
	if isArray(t) {
		f.vc.unsupported("store of array value %s", typeKey(t))
		return
	}
	f.writeLoc(st, f.locOf(v, t), val, instr)
}

// fieldAddr computes &v.f_i for v a reference to an object of struct type owner.
func (f *Frame) fieldAddr(v Value, owner types.Type, i int) Value {
	env := f.vc.env
	st := owner.Underlying().(*types.Struct)
	ft := st.Field(i).Type()
	if v.Loc != nil && v.Loc.Kind == locLocal {
		// field of a struct-typed local variable held by value
		root := v.Loc.Root
		if root == nil {
			root = v.Loc.Typ
		}
		path := append(append([]int{}, v.Loc.Path...), i)
		return Value{T: IntLit(-1), Loc: &Loc{Kind: locLocal, Cell: v.Loc.Cell, Path: path, Root: root, Typ: ft}}
	}
	if isStruct(ft) {
		return Value{T: env.subRef(owner, i, v.T)}
	}
	if isArray(ft) {
		return Value{T: env.subRef(owner, i, v.T)}
	}
	hn, hs := env.fieldHeap(owner, i)
	return Value{T: env.fldRef(owner, i, v.T), Loc: &Loc{Kind: locHeap, Heap: hn, HSort: hs, Idx: v.T, Typ: ft, Field: true}}
}

// elemAddr computes the address of element idx of array reference arr.
func (f *Frame) elemAddr(arr, idx Term, elem types.Type) Value {
	ref := ElemRef(arr, idx)
	if isStruct(elem) || isArray(elem) {
		return Value{T: ref}
	}
	hn, hs := f.vc.env.elemHeap(elem)
	return Value{T: ref, Loc: &Loc{Kind: locHeap, Heap: hn, HSort: hs, Idx: ref, Typ: elem, Field: true}}
}

func (f *Frame) elemAddrRef(ref Term, elem types.Type) Value {
	if isStruct(elem) || isArray(elem) {
		return Value{T: ref}
	}
	hn, hs := f.vc.env.elemHeap(elem)
	return Value{T: ref, Loc: &Loc{Kind: locHeap, Heap: hn, HSort: hs, Idx: ref, Typ: elem, Field: true}}
}

// alloc creates a fresh object reference.
func (f *Frame) allocRef(st *State, t types.Type) Term {
	vc := f.vc
	ref := vc.freshConst("new", SInt)
	vc.assumeIn(st, And(Eq(ref, Add(st.top, IntLit(1))), Eq(Base(ref), ref), Eq(App(SInt, "refkind", ref), IntLit(0)), Eq(RType(ref), IntLit(int64(vc.tagOf(t))))))
	st.top = ref
	f.markAlive(st, ref, t)
	return ref
}

// markAlive records ref (and the structs embedded in it by value) as allocated
// objects of their types.
func (f *Frame) markAlive(st *State, ref Term, t types.Type) {
	s, ok := t.Underlying().(*types.Struct)
	if !ok {
		return
	}
	hn, hs := f.vc.env.aliveHeap(t)
	st.SetHeap(hn, Store(st.Heap(f.vc, hn, hs), ref, True))
	for i := 0; i < s.NumFields(); i++ {
		if isStruct(s.Field(i).Type()) {
			f.markAlive(st, f.vc.env.subRef(t, i, ref), s.Field(i).Type())
		}
	}
}

// zeroInit writes the zero value of t at reference/pointer v.
func (f *Frame) zeroInit(st *State, v Value, t types.Type) {
	env := f.vc.env
	if v.Loc != nil && v.Loc.Kind == locLocal && isStruct(t) {
		f.writeLoc(st, *v.Loc, env.Zero(t), nil)
		return
	}
	switch u := t.Underlying().(type) {
	case *types.Struct:
		for i := 0; i < u.NumFields(); i++ {
			f.zeroInit(st, f.fieldAddr(v, t, i), u.Field(i).Type())
		}
		// ghost fields of a fresh object start at their zero value
		for _, g := range f.vc.p.ghosts {
			if types.Identical(g.owner, t) {
				var z Term
				vs := arrayValSort(g.sort)
				if strings.HasPrefix(string(vs), "(Array ") {
					k, e := splitArraySort(vs)
					zs := zeroOfSort(e)
					if mt, isMap := g.typ.(*types.Map); isMap {
						zs = env.Zero(mt.Elem()).S
					}
					z = Term{fmt.Sprintf("((as const (Array %s %s)) %s)", k, e, zs), vs}
				} else {
					z = env.Zero(g.typ)
				}
				st.SetHeap(g.heap, Store(st.Heap(f.vc, g.heap, g.sort), v.T, z))
			}
		}
	case *types.Array:
		if u.Len() <= 16 {
			for i := int64(0); i < u.Len(); i++ {
				f.zeroInit(st, f.elemAddr(v.T, IntLit(i), u.Elem()), u.Elem())
			}
		}
	default:
		l := f.locOf(v, t)
		if l.Kind == locLocal && len(l.Path) > 0 {
			f.writeLoc(st, l, env.Zero(t), nil)
			return
		}
		// fresh object: no frame check needed
		if l.Kind == locLocal {
			st.locals[l.Cell] = env.Zero(t)
		} else {
			st.SetHeap(l.Heap, Store(st.Heap(f.vc, l.Heap, l.HSort), l.Idx, env.Zero(t)))
		}
	}
}

// factsOf assumes the background facts of a value of type t that enters the
// function from outside (parameter, heap load, call result).
func (f *Frame) factsOf(st *State, v Term, t types.Type) {
	vc := f.vc
	g := vc.valueFacts(st, v, t, 0)
	if g.S != "true" {
		vc.assumeIn(st, g)
	}
}

func (vc *VC) valueFacts(st *State, v Term, t types.Type, depth int) Term {
	if lo, hi, ok := intRange(t); ok {
		return And(Le(BigLit(lo), v), Le(v, BigLit(hi)))
	}
	switch u := t.Underlying().(type) {
	case *types.Slice:
		return And(Le(IntLit(0), SlLen(v)), Le(SlLen(v), SlCap(v)), Le(IntLit(0), SlOff(v)), Le(SlCap(v), BigLit("72057594037927936")),
			Implies(Eq(SlArr(v), IntLit(0)), Eq(SlCap(v), IntLit(0))), Le(Base(SlArr(v)), st.top), Le(IntLit(0), Base(SlArr(v))))
	case *types.Pointer:
		fs := []Term{Le(Base(v), st.top), Le(IntLit(0), Base(v)), Implies(Not(Eq(v, IntLit(0))), Lt(IntLit(0), Base(v)))}
		if isStruct(u.Elem()) {
			// Go's type safety: a non-nil *T points to an object of type T
			fs = append(fs, Implies(Not(Eq(v, IntLit(0))), Eq(RType(v), IntLit(int64(vc.tagOf(u.Elem()))))))
			if vc.p.moduleType(u.Elem()) {
				fs = append(fs, Implies(Not(Eq(v, IntLit(0))), vc.aliveFacts(st, v, u.Elem())))
			}
		}
		return And(fs...)
	case *types.Map, *types.Chan:
		return And(Le(Base(v), st.top), Le(IntLit(0), Base(v)), Implies(Not(Eq(v, IntLit(0))), Lt(IntLit(0), Base(v))))
	case *types.Interface:
		fs := []Term{Le(Base(IfVal(v)), st.top), Le(IntLit(0), IfTag(v)), Implies(Eq(IfTag(v), IntLit(0)), Eq(IfVal(v), IntLit(0)))}
		if vc.p.closedInterface(t) {
			var alts []Term
			alts = append(alts, Eq(IfTag(v), IntLit(0)))
			for _, ct := range vc.p.implementers(t) {
				alts = append(alts, Eq(IfTag(v), IntLit(int64(vc.tagOf(ct)))))
				if pt, ok := ct.Underlying().(*types.Pointer); ok && isStruct(pt.Elem()) {
					// module code never stores a typed nil pointer in a closed interface
					fs = append(fs, Implies(Eq(IfTag(v), IntLit(int64(vc.tagOf(ct)))), And(Not(Eq(IfVal(v), IntLit(0))), Eq(RType(IfVal(v)), IntLit(int64(vc.tagOf(pt.Elem())))), vc.aliveFacts(st, IfVal(v), pt.Elem()))))
				}
			}
			fs = append(fs, Or(alts...))
		}
		return And(fs...)
	case *types.Basic:
		if u.Info()&types.IsString != 0 {
			return Le(SLen(v), BigLit("72057594037927936"))
		}
	case *types.Struct:
		if depth > 3 {
			return True
		}
		var fs []Term
		for i := 0; i < u.NumFields(); i++ {
			fs = append(fs, vc.valueFacts(st, vc.env.structGet(t, v, i), u.Field(i).Type(), depth+1))
		}
		return And(fs...)
	}
	return True
}

func zeroOfSort(s Sort) string {
	switch s {
	case SInt:
		return "0"
	case SBool:
		return "false"
	case SStr:
		return "str_empty"
	case SSlice:
		return NilSlice.S
	case SIface:
		return NilIface.S
	}
	return "0"
}

// aliveFacts: ref is an allocated object of struct type t, and so are the
// structs embedded in it by value.
func (vc *VC) aliveFacts(st *State, ref Term, t types.Type) Term {
	s, ok := t.Underlying().(*types.Struct)
	if !ok {
		return True
	}
	hn, hs := vc.env.aliveHeap(t)
	fs := []Term{Select(st.Heap(vc, hn, hs), ref)}
	for i := 0; i < s.NumFields(); i++ {
		if isStruct(s.Field(i).Type()) && vc.p.moduleType(s.Field(i).Type()) {
			fs = append(fs, vc.aliveFacts(st, vc.env.subRef(t, i, ref), s.Field(i).Type()))
		}
	}
	return And(fs...)
}
