package main

// Contract expression language: lexer, AST and Pratt parser.
//
// Go-like expressions extended with  ==>  <==>  forall/exists  old()  pre()
// fresh()  ite()  dyn()  type(T)  has(m,k)  and x.(T).

import (
	"fmt"
	"strconv"
	"strings"
	"unicode"
)

type Expr interface{ exprNode() }

type (
	EIdent struct{ Name string }
	EInt   struct{ Val string }
	EStr   struct{ Val string }
	EBool  struct{ Val bool }
	ENil   struct{}
	EUnary struct {
		Op string
		X  Expr
	}
	EBinary struct {
		Op   string
		X, Y Expr
	}
	ECall struct {
		Fun  Expr
		Args []Expr
	}
	EIndex struct{ X, I Expr }
	ESlice struct{ X, Lo, Hi Expr }
	EField struct {
		X    Expr
		Name string
	}
	EAssert struct { // x.(T)
		X Expr
		T *TypeExpr
	}
	EQuant struct {
		Forall   bool
		Vars     []QVar
		Triggers [][]Expr
		Body     Expr
	}
	ETypeTag struct{ T *TypeExpr } // type(T)
	EStar    struct{}              // `*` in modifies designators: m[*]
)

type QVar struct {
	Name string
	T    *TypeExpr
}

// TypeExpr is a parsed Go type expression.
type TypeExpr struct {
	Kind string // name, ptr, slice, map, qual
	Pkg  string
	Name string
	Elem *TypeExpr
	Key  *TypeExpr
}

func (t *TypeExpr) String() string {
	switch t.Kind {
	case "ptr":
		return "*" + t.Elem.String()
	case "slice":
		return "[]" + t.Elem.String()
	case "map":
		return "map[" + t.Key.String() + "]" + t.Elem.String()
	case "qual":
		return t.Pkg + "." + t.Name
	}
	return t.Name
}

func (EIdent) exprNode()   {}
func (EInt) exprNode()     {}
func (EStr) exprNode()     {}
func (EBool) exprNode()    {}
func (ENil) exprNode()     {}
func (EUnary) exprNode()   {}
func (EBinary) exprNode()  {}
func (ECall) exprNode()    {}
func (EIndex) exprNode()   {}
func (ESlice) exprNode()   {}
func (EField) exprNode()   {}
func (EAssert) exprNode()  {}
func (EQuant) exprNode()   {}
func (ETypeTag) exprNode() {}
func (EStar) exprNode()    {}

// ---- lexer -----------------------------------------------------------------

type ctok struct {
	kind string // ident, int, str, char, op, eof
	text string
	pos  int
}

func lex(src string) ([]ctok, error) {
	var toks []ctok
	i := 0
	for i < len(src) {
		c := src[i]
		switch {
		case c == ' ' || c == '\t' || c == '\n' || c == '\r':
			i++
		case unicode.IsLetter(rune(c)) || c == '_' || c == '$':
			j := i + 1
			for j < len(src) && (unicode.IsLetter(rune(src[j])) || unicode.IsDigit(rune(src[j])) || src[j] == '_' || src[j] == '$' || src[j] == '#') {
				j++
			}
			toks = append(toks, ctok{"ident", src[i:j], i})
			i = j
		case c >= '0' && c <= '9':
			j := i + 1
			for j < len(src) && (src[j] >= '0' && src[j] <= '9' || src[j] == 'x' || (src[j] >= 'a' && src[j] <= 'f') || (src[j] >= 'A' && src[j] <= 'F')) {
				j++
			}
			toks = append(toks, ctok{"int", src[i:j], i})
			i = j
		case c == '"':
			j := i + 1
			for j < len(src) && src[j] != '"' {
				if src[j] == '\\' {
					j++
				}
				j++
			}
			if j >= len(src) {
				return nil, fmt.Errorf("unterminated string at %d", i)
			}
			s, err := strconv.Unquote(src[i : j+1])
			if err != nil {
				return nil, fmt.Errorf("bad string %s: %v", src[i:j+1], err)
			}
			toks = append(toks, ctok{"str", s, i})
			i = j + 1
		case c == '`':
			j := strings.IndexByte(src[i+1:], '`')
			if j < 0 {
				return nil, fmt.Errorf("unterminated raw string at %d", i)
			}
			toks = append(toks, ctok{"str", src[i+1 : i+1+j], i})
			i = i + j + 2
		case c == '\'':
			j := i + 1
			for j < len(src) && src[j] != '\'' {
				if src[j] == '\\' {
					j++
				}
				j++
			}
			if j >= len(src) {
				return nil, fmt.Errorf("unterminated char at %d", i)
			}
			r, _, _, err := strconv.UnquoteChar(src[i+1:j], '\'')
			if err != nil {
				return nil, fmt.Errorf("bad char %s", src[i:j+1])
			}
			toks = append(toks, ctok{"int", strconv.Itoa(int(r)), i})
			i = j + 1
		default:
			ops := []string{"<==>", "==>", "::", "==", "!=", "<=", ">=", "&&", "||", "+", "-", "*", "/", "%", "<", ">", "!", "(", ")", "[", "]", "{", "}", ",", ".", ":", "&", "=", ";"}
			found := false
			for _, op := range ops {
				if strings.HasPrefix(src[i:], op) {
					toks = append(toks, ctok{"op", op, i})
					i += len(op)
					found = true
					break
				}
			}
			if !found {
				return nil, fmt.Errorf("unexpected character %q at %d in %q", c, i, src)
			}
		}
	}
	toks = append(toks, ctok{"eof", "", len(src)})
	return toks, nil
}

// ---- parser ----------------------------------------------------------------

type parser struct {
	toks []ctok
	p    int
	src  string
}

func (p *parser) peek() ctok { return p.toks[p.p] }
func (p *parser) next() ctok {
	t := p.toks[p.p]
	if p.p < len(p.toks)-1 {
		p.p++
	}
	return t
}
func (p *parser) isOp(s string) bool { t := p.peek(); return t.kind == "op" && t.text == s }
func (p *parser) accept(s string) bool {
	if p.isOp(s) {
		p.next()
		return true
	}
	return false
}
func (p *parser) expect(s string) {
	if !p.accept(s) {
		panic(fmt.Errorf("expected %q at %d in %q (got %q)", s, p.peek().pos, p.src, p.peek().text))
	}
}

func ParseExpr(src string) (e Expr, err error) {
	toks, err := lex(src)
	if err != nil {
		return nil, err
	}
	p := &parser{toks: toks, src: src}
	defer func() {
		if r := recover(); r != nil {
			if re, ok := r.(error); ok {
				err = re
				return
			}
			panic(r)
		}
	}()
	e = p.parseExpr()
	if p.peek().kind != "eof" {
		return nil, fmt.Errorf("trailing input at %d in %q", p.peek().pos, src)
	}
	return e, nil
}

// ParseExprList parses comma separated expressions.
func ParseExprList(src string) (es []Expr, err error) {
	toks, err := lex(src)
	if err != nil {
		return nil, err
	}
	p := &parser{toks: toks, src: src}
	defer func() {
		if r := recover(); r != nil {
			if re, ok := r.(error); ok {
				err = re
				return
			}
			panic(r)
		}
	}()
	for {
		es = append(es, p.parseExpr())
		if !p.accept(",") {
			break
		}
	}
	if p.peek().kind != "eof" {
		return nil, fmt.Errorf("trailing input at %d in %q", p.peek().pos, src)
	}
	return es, nil
}

func (p *parser) parseExpr() Expr {
	t := p.peek()
	if t.kind == "ident" && (t.text == "forall" || t.text == "exists") {
		p.next()
		q := EQuant{Forall: t.text == "forall"}
		for {
			name := p.next()
			if name.kind != "ident" {
				panic(fmt.Errorf("expected bound variable at %d in %q", name.pos, p.src))
			}
			ty := p.parseType()
			q.Vars = append(q.Vars, QVar{name.text, ty})
			if !p.accept(",") {
				break
			}
		}
		for p.isOp("{") {
			p.next()
			var trig []Expr
			for {
				trig = append(trig, p.parseBin(0))
				if !p.accept(",") {
					break
				}
			}
			p.expect("}")
			q.Triggers = append(q.Triggers, trig)
		}
		p.expect("::")
		q.Body = p.parseExpr()
		return q
	}
	return p.parseBin(0)
}

var binPrec = map[string]int{
	"<==>": 1, "==>": 2, "||": 3, "&&": 4,
	"==": 5, "!=": 5, "<": 5, "<=": 5, ">": 5, ">=": 5,
	"+": 6, "-": 6, "*": 7, "/": 7, "%": 7,
}

func (p *parser) parseBin(minPrec int) Expr {
	lhs := p.parseUnary()
	for {
		t := p.peek()
		if t.kind != "op" {
			return lhs
		}
		prec, ok := binPrec[t.text]
		if !ok || prec < minPrec {
			return lhs
		}
		p.next()
		var rhs Expr
		if t.text == "==>" {
			// right associative; allow a quantifier on the right
			if pk := p.peek(); pk.kind == "ident" && (pk.text == "forall" || pk.text == "exists") {
				rhs = p.parseExpr()
			} else {
				rhs = p.parseBin(prec)
			}
		} else {
			if pk := p.peek(); pk.kind == "ident" && (pk.text == "forall" || pk.text == "exists") {
				rhs = p.parseExpr()
			} else {
				rhs = p.parseBin(prec + 1)
			}
		}
		lhs = EBinary{t.text, lhs, rhs}
	}
}

func (p *parser) parseUnary() Expr {
	t := p.peek()
	if t.kind == "op" {
		switch t.text {
		case "!", "-", "&":
			p.next()
			return EUnary{t.text, p.parseUnary()}
		case "*":
			p.next()
			// `*` alone (designator wildcard) when followed by ] or , or eof
			if pk := p.peek(); pk.kind == "eof" || (pk.kind == "op" && (pk.text == "]" || pk.text == ",")) {
				return EStar{}
			}
			return EUnary{"*", p.parseUnary()}
		}
	}
	return p.parsePostfix(p.parsePrimary())
}

func (p *parser) parsePrimary() Expr {
	t := p.next()
	switch t.kind {
	case "int":
		return EInt{t.text}
	case "str":
		return EStr{t.text}
	case "ident":
		switch t.text {
		case "true":
			return EBool{true}
		case "false":
			return EBool{false}
		case "nil":
			return ENil{}
		case "type":
			if p.isOp("(") {
				p.next()
				ty := p.parseType()
				p.expect(")")
				return ETypeTag{ty}
			}
		}
		return EIdent{t.text}
	case "op":
		if t.text == "(" {
			e := p.parseExpr()
			p.expect(")")
			return e
		}
	}
	panic(fmt.Errorf("unexpected %q at %d in %q", t.text, t.pos, p.src))
}

func (p *parser) parsePostfix(x Expr) Expr {
	for {
		switch {
		case p.isOp("("):
			p.next()
			var args []Expr
			if !p.isOp(")") {
				for {
					args = append(args, p.parseExpr())
					if !p.accept(",") {
						break
					}
				}
			}
			p.expect(")")
			x = ECall{x, args}
		case p.isOp("["):
			p.next()
			if p.accept(":") {
				var hi Expr
				if !p.isOp("]") {
					hi = p.parseExpr()
				}
				p.expect("]")
				x = ESlice{x, nil, hi}
				continue
			}
			i := p.parseExpr()
			if p.accept(":") {
				var hi Expr
				if !p.isOp("]") {
					hi = p.parseExpr()
				}
				p.expect("]")
				x = ESlice{x, i, hi}
				continue
			}
			p.expect("]")
			x = EIndex{x, i}
		case p.isOp("."):
			p.next()
			if p.isOp("(") {
				p.next()
				ty := p.parseType()
				p.expect(")")
				x = EAssert{x, ty}
				continue
			}
			name := p.next()
			if name.kind != "ident" {
				panic(fmt.Errorf("expected field name at %d in %q", name.pos, p.src))
			}
			x = EField{x, name.text}
		default:
			return x
		}
	}
}

func (p *parser) parseType() *TypeExpr {
	t := p.next()
	switch {
	case t.kind == "op" && t.text == "*":
		return &TypeExpr{Kind: "ptr", Elem: p.parseType()}
	case t.kind == "op" && t.text == "[":
		p.expect("]")
		return &TypeExpr{Kind: "slice", Elem: p.parseType()}
	case t.kind == "ident" && t.text == "map":
		p.expect("[")
		k := p.parseType()
		p.expect("]")
		return &TypeExpr{Kind: "map", Key: k, Elem: p.parseType()}
	case t.kind == "ident" && t.text == "interface":
		p.expect("{")
		p.expect("}")
		return &TypeExpr{Kind: "name", Name: "interface{}"}
	case t.kind == "ident":
		if p.isOp(".") {
			// qualified name: only if next-next is ident and this is a package
			save := p.p
			p.next()
			n := p.next()
			if n.kind == "ident" {
				return &TypeExpr{Kind: "qual", Pkg: t.text, Name: n.text}
			}
			p.p = save
		}
		return &TypeExpr{Kind: "name", Name: t.text}
	}
	panic(fmt.Errorf("bad type at %d in %q", t.pos, p.src))
}

func ParseType(src string) (ty *TypeExpr, err error) {
	toks, err := lex(src)
	if err != nil {
		return nil, err
	}
	p := &parser{toks: toks, src: src}
	defer func() {
		if r := recover(); r != nil {
			if re, ok := r.(error); ok {
				err = re
				return
			}
			panic(r)
		}
	}()
	ty = p.parseType()
	if p.peek().kind != "eof" {
		return nil, fmt.Errorf("trailing input in type %q", src)
	}
	return ty, nil
}

func exprString(e Expr) string {
	switch x := e.(type) {
	case EIdent:
		return x.Name
	case EInt:
		return x.Val
	case EStr:
		return strconv.Quote(x.Val)
	case EBool:
		return fmt.Sprint(x.Val)
	case ENil:
		return "nil"
	case EUnary:
		return x.Op + exprString(x.X)
	case EBinary:
		return "(" + exprString(x.X) + " " + x.Op + " " + exprString(x.Y) + ")"
	case ECall:
		var as []string
		for _, a := range x.Args {
			as = append(as, exprString(a))
		}
		return exprString(x.Fun) + "(" + strings.Join(as, ", ") + ")"
	case EIndex:
		return exprString(x.X) + "[" + exprString(x.I) + "]"
	case ESlice:
		lo, hi := "", ""
		if x.Lo != nil {
			lo = exprString(x.Lo)
		}
		if x.Hi != nil {
			hi = exprString(x.Hi)
		}
		return exprString(x.X) + "[" + lo + ":" + hi + "]"
	case EField:
		return exprString(x.X) + "." + x.Name
	case EAssert:
		return exprString(x.X) + ".(" + x.T.String() + ")"
	case EQuant:
		q := "exists"
		if x.Forall {
			q = "forall"
		}
		var vs []string
		for _, v := range x.Vars {
			vs = append(vs, v.Name+" "+v.T.String())
		}
		return q + " " + strings.Join(vs, ", ") + " :: " + exprString(x.Body)
	case ETypeTag:
		return "type(" + x.T.String() + ")"
	case EStar:
		return "*"
	}
	return "?"
}
