package main

// Baseline names: the names of parameters, local variables and captured variables of every function, as they were on the
// tree the contracts were written for (/verif/names.json, written by `govc -dump-names`).  Contracts address locals by
// name; when a name a contract uses is not found in the current function but the function still has the same sequence
// of parameters / locals / captured variables (same count, same types, in the same order), the name is resolved by
// position.  This keeps a pure renaming from detaching the contract.  Any resolution is sound: loop invariants,
// assertions and ghost updates are auxiliary - whatever they are taken to speak about, the obligations generated from
// them are discharged or not - and parameters keep their position.

import (
	"encoding/json"
	"fmt"
	"os"
	"path/filepath"
	"sort"

	"golang.org/x/tools/go/ssa"
)

type FuncNames struct {
	Params   []string    `json:"params"`
	Locals   [][2]string `json:"locals"` // name, type
	FreeVars [][2]string `json:"freevars"`
}

func funcNames(fn *ssa.Function) FuncNames {
	var n FuncNames
	for _, p := range fn.Params {
		n.Params = append(n.Params, p.Name())
	}
	for _, b := range fn.Blocks {
		for _, in := range b.Instrs {
			if a, ok := in.(*ssa.Alloc); ok && a.Comment != "" {
				n.Locals = append(n.Locals, [2]string{a.Comment, a.Type().String()})
			}
		}
	}
	for _, fv := range fn.FreeVars {
		n.FreeVars = append(n.FreeVars, [2]string{fv.Name(), fv.Type().String()})
	}
	return n
}

func (p *Prog) dumpNames(path string) error {
	out := map[string]FuncNames{}
	var keys []string
	for k := range p.funcs {
		keys = append(keys, k)
	}
	sort.Strings(keys)
	for _, k := range keys {
		if fn := p.funcs[k]; len(fn.Blocks) > 0 {
			out[k] = funcNames(fn)
		}
	}
	data, err := json.MarshalIndent(out, "", " ")
	if err != nil {
		return err
	}
	return os.WriteFile(path, data, 0o644)
}

func (p *Prog) loadBaseNames(verifDir string) {
	p.baseNames = map[string]FuncNames{}
	data, err := os.ReadFile(filepath.Join(verifDir, "names.json"))
	if err != nil {
		return
	}
	json.Unmarshal(data, &p.baseNames)
}

type nameAlias struct {
	fwd map[string]string // name used by the contract -> name in the current code
	rev map[string]string // current name -> name used by the contract
}

// keyed: name, name#1, name#2 ... for repeated names, in order of appearance
func keyedNames(names []string) []string {
	count := map[string]int{}
	out := make([]string, len(names))
	for i, n := range names {
		if k := count[n]; k > 0 {
			out[i] = fmt.Sprintf("%s#%d", n, k)
		} else {
			out[i] = n
		}
		count[n]++
	}
	return out
}

func (p *Prog) aliasFor(fn *ssa.Function) *nameAlias {
	if p.aliasCache == nil {
		p.aliasCache = map[*ssa.Function]*nameAlias{}
	}
	if a, ok := p.aliasCache[fn]; ok {
		return a
	}
	a := &nameAlias{fwd: map[string]string{}, rev: map[string]string{}}
	p.aliasCache[fn] = a
	base, ok := p.baseNames[p.funcKey(fn)]
	if !ok {
		return a
	}
	cur := funcNames(fn)
	current := map[string]bool{}
	for _, n := range cur.Params {
		current[n] = true
	}
	for _, l := range cur.Locals {
		current[l[0]] = true
	}
	for _, l := range cur.FreeVars {
		current[l[0]] = true
	}
	add := func(oldN, curN []string) {
		ok, ck := keyedNames(oldN), keyedNames(curN)
		for i := range ok {
			if ok[i] == ck[i] || ok[i] == "" || ok[i] == "_" {
				continue
			}
			// never shadow a name that exists in the current function
			if base := ok[i]; !current[base] {
				if _, dup := a.fwd[ok[i]]; !dup {
					a.fwd[ok[i]] = ck[i]
					a.rev[ck[i]] = ok[i]
				}
			}
		}
	}
	if len(base.Params) == len(cur.Params) {
		add(base.Params, cur.Params)
	}
	same := func(x, y [][2]string) bool {
		if len(x) != len(y) {
			return false
		}
		for i := range x {
			if x[i][1] != y[i][1] {
				return false
			}
		}
		return true
	}
	first := func(x [][2]string) []string {
		out := make([]string, len(x))
		for i := range x {
			out[i] = x[i][0]
		}
		return out
	}
	if same(base.Locals, cur.Locals) {
		add(first(base.Locals), first(cur.Locals))
	}
	if same(base.FreeVars, cur.FreeVars) {
		add(first(base.FreeVars), first(cur.FreeVars))
	}
	return a
}

// curName maps a name used by a contract of fn to the name the current code uses (identity unless renamed).
func (p *Prog) curName(fn *ssa.Function, name string) string {
	if fn == nil {
		return name
	}
	if n, ok := p.aliasFor(fn).fwd[name]; ok {
		return n
	}
	return name
}

// contractName maps a name of the current code of fn back to the name the contract uses.
func (p *Prog) contractName(fn *ssa.Function, name string) string {
	if fn == nil {
		return name
	}
	if n, ok := p.aliasFor(fn).rev[name]; ok {
		return n
	}
	return name
}
